package main

import (
	"encoding/json"
	"flag"
	"fmt"
	"os"
	"path/filepath"
	"sort"
	"strconv"
	"strings"
	"time"
)

// Finding: a concrete input on which the REAL library violates a property (oracle result).
type Finding struct {
	Property string `json:"property"`
	Shape    string `json:"shape"` // classification used to match known findings
	What     string `json:"what"`
	Case     string `json:"case"` // recipe text (replayable)
	Expected string `json:"expected,omitempty"`
	Observed string `json:"observed,omitempty"`
	// Sequence: the recipe is several cases to be run one after the other in ONE fresh process;
	// the finding is about the last one (C09: output depends on what the process did before)
	Sequence bool `json:"sequence,omitempty"`
}

type Stats struct {
	Cases         int            `json:"cases"`
	RenderOps     int            `json:"render_ops"`
	Outcomes      map[string]int `json:"outcomes"`
	Distinct      int            `json:"distinct_nontrivial"`
	Nodes         int            `json:"nodes"`
	MaxArity      int            `json:"max_arity"`
	OracleCases   int            `json:"oracle_cases"`
	Notes         []string       `json:"notes,omitempty"`
	Hist          map[string]int `json:"histogram,omitempty"`
}

type CheckCtx struct {
	Prop    string
	Tier    string
	Seed    uint64
	R       *Rng
	Stats   *Stats
	Samples []string
	Extra   map[string]interface{}
	Escalate int
}

func (cx *CheckCtx) N(quick, thorough int) int {
	if cx.Tier == "thorough" {
		return thorough
	}
	// escalated quick tier: a function of /repo changed against the baseline, or the syntactic
	// tie of the registry no longer checks -> search harder
	if cx.Escalate > 1 && quick*cx.Escalate < thorough {
		return quick * cx.Escalate
	}
	if cx.Escalate > 1 {
		return thorough
	}
	return quick
}

func (cx *CheckCtx) note(s string) { cx.Stats.Notes = append(cx.Stats.Notes, s) }
func (cx *CheckCtx) hist(k string) {
	if cx.Stats.Hist == nil {
		cx.Stats.Hist = map[string]int{}
	}
	cx.Stats.Hist[k]++
}

type PropCheck struct {
	// Cases for the correspondence (model vs implementation)
	Gen func(cx *CheckCtx) []*Case
	// Oracle decides the property on the real library; gets the correspondence runs so that
	// it can reuse outputs, and may run further targeted experiments of its own.
	Oracle func(cx *CheckCtx, runs []*CaseRun) []Finding
}

var checks = map[string]*PropCheck{}

type Known struct {
	Findings []struct {
		Property string `json:"property"`
		Shape    string `json:"shape"`
		What     string `json:"what"`
	} `json:"known_findings"`
	Fixed []string `json:"fixed"`
}

func loadKnown(path string) *Known {
	k := &Known{}
	b, err := os.ReadFile(path)
	if err == nil {
		json.Unmarshal(b, k)
	}
	return k
}

func writeJSON(path string, v interface{}) {
	b, _ := json.MarshalIndent(v, "", " ")
	os.MkdirAll(filepath.Dir(path), 0o755)
	os.WriteFile(path, append(b, '\n'), 0o644)
}

func main() {
	if len(os.Args) < 2 {
		fmt.Fprintln(os.Stderr, "usage: harness check <Cxx> [flags] | replay <file>")
		os.Exit(2)
	}
	initAPI()
	initDriver()
	registerChecks()
	switch os.Args[1] {
	case "check":
		os.Exit(cmdCheck(os.Args[2:]))
	case "replay":
		os.Exit(cmdReplay(os.Args[2:]))
	case "runseq":
		os.Exit(cmdRunSeq(os.Args[2:]))
	case "gen":
		// print generated cases (debugging)
		fs := flag.NewFlagSet("gen", flag.ExitOnError)
		prop := fs.String("prop", "C02", "")
		seed := fs.Uint64("seed", 1, "")
		n := fs.Int("n", 3, "")
		fs.Parse(os.Args[2:])
		cx := &CheckCtx{Prop: *prop, Tier: "quick", Seed: *seed, R: NewRng(*seed), Stats: &Stats{Outcomes: map[string]int{}}}
		cs := checks[*prop].Gen(cx)
		for i, c := range cs {
			if i >= *n {
				break
			}
			fmt.Print(c.Text())
		}
	default:
		fmt.Fprintln(os.Stderr, "unknown command")
		os.Exit(2)
	}
}

func cmdCheck(args []string) int {
	fs := flag.NewFlagSet("check", flag.ExitOnError)
	tier := fs.String("tier", "quick", "quick|thorough")
	seed := fs.Uint64("seed", 1, "seed")
	evidence := fs.String("evidence", "", "evidence json output (partial: merged by bin/check)")
	replays := fs.String("replays", "/verif/replays", "directory for replay files")
	known := fs.String("known", "/verif/known_findings.json", "known findings")
	failedObl := fs.String("failed-obligations", "", "comma separated names of proof obligations that failed")
	corpus := fs.String("corpus", "/verif/corpus", "corpus directory")
	escalate := fs.Int("escalate", 1, "multiply the quick budgets (set by bin/check when /repo's functions changed)")
	if len(args) < 1 {
		return 2
	}
	prop := args[0]
	fs.Parse(args[1:])
	pc, ok := checks[prop]
	if !ok {
		fmt.Fprintln(os.Stderr, "no check for", prop)
		return 2
	}
	start := time.Now()
	cx := &CheckCtx{Prop: prop, Tier: *tier, Seed: *seed, R: NewRng(*seed ^ hashStr(prop)), Stats: &Stats{Outcomes: map[string]int{}}, Extra: map[string]interface{}{}, Escalate: *escalate}

	var cases []*Case
	// corpus first
	if ents, err := os.ReadDir(filepath.Join(*corpus, prop)); err == nil {
		for _, e := range ents {
			if b, err := os.ReadFile(filepath.Join(*corpus, prop, e.Name())); err == nil {
				cs, err := ParseCases(string(b))
				if err != nil {
					fmt.Fprintf(os.Stderr, "corpus %s: %v\n", e.Name(), err)
					return 2
				}
				cases = append(cases, cs...)
			}
		}
	}
	nCorpus := len(cases)
	cases = append(cases, pc.Gen(cx)...)
	for _, c := range cases {
		if err := validateCase(c); err != nil {
			fmt.Fprintf(os.Stderr, "MACHINERY ERROR: %v\n%s", err, c.Text())
			return 2
		}
	}
	runs, err := RunAll(cases, *seed*1000003+17)
	if err != nil {
		fmt.Fprintln(os.Stderr, "MACHINERY ERROR:", err)
		return 2
	}
	var dis []Disagreement
	seen := map[string]bool{}
	inputDistribution(cx, cases)
	for _, cr := range runs {
		cx.Stats.Cases++
		for _, o := range cr.Real {
			cx.Stats.RenderOps++
			cx.Stats.Outcomes[o.Class]++
		}
		t := cr.Case.Text()
		key := t[strings.Index(t, "\n")+1:]
		if !seen[key] && len(cr.Real) > 0 {
			seen[key] = true
			cx.Stats.Distinct++
		}
		dis = append(dis, cr.Dis...)
	}
	for i := 0; i < len(cases) && len(cx.Samples) < 3; i += 1 + len(cases)/3 {
		cx.Samples = append(cx.Samples, cases[i].Text())
	}
	for _, d := range dis {
		if d.Level == "machinery" {
			fmt.Fprintf(os.Stderr, "MACHINERY ERROR: %s\n%s", d.Got, d.Case.Text())
			return 2
		}
	}
	var findings []Finding
	if pc.Oracle != nil {
		findings = pc.Oracle(cx, runs)
	}
	findings = append(findings, runDirect(cx, cx.N(400, 20000))...)

	kn := loadKnown(*known)
	isKnown := func(f Finding) bool {
		for _, k := range kn.Findings {
			if k.Property == f.Property && k.Shape == f.Shape {
				return true
			}
		}
		return false
	}
	os.MkdirAll(*replays, 0o755)
	exit := 0
	nViol := 0
	knownSeen := map[string]bool{}
	nrep := 0
	for _, f := range findings {
		if isKnown(f) {
			if !knownSeen[f.Shape] {
				knownSeen[f.Shape] = true
				fmt.Printf("KNOWN-FINDING: property=%s %s [%s]\n", prop, f.What, f.Shape)
			}
			continue
		}
		nViol++
		if nrep < 5 {
			nrep++
			p := filepath.Join(*replays, fmt.Sprintf("%s-%d-%d.json", prop, *seed, nrep))
			writeJSON(p, map[string]interface{}{"kind": "failing-input", "finding": f, "rerun": "bin/check " + prop + " --replay " + p})
			fmt.Printf("VIOLATION property=%s replay=%s\n", prop, p)
		}
		exit = 1
	}
	// broken correspondence / broken obligations
	var failed []string
	if *failedObl != "" {
		failed = strings.Split(*failedObl, ",")
	}
	// Where the implementation is order-dependent in a way already recorded as a known finding
	// (the model takes the map iteration order as a parameter, the harness cannot choose it),
	// a disagreement on a recipe of exactly that shape is explained by the finding.
	knownShape := func(shape string) bool {
		for _, k := range kn.Findings {
			if k.Property == prop && k.Shape == shape {
				return true
			}
		}
		return false
	}
	// (the order dependence is recorded once, under C07; for any other property a recipe of that
	// shape is decided by the property's own oracle on the implementation's output — the model's
	// output for ONE order is not a reference there)
	d7Recorded := func(kn *Known) bool {
		for _, k := range kn.Findings {
			if k.Shape == "dict-registers-imports-in-map-order" {
				return true
			}
		}
		return false
	}
	var openDis []Disagreement
	explained := 0
	for _, d := range dis {
		if d.Level != "callbacks" && dictRegistersInMapOrder(d.Case) && (knownShape("dict-registers-imports-in-map-order") || d7Recorded(kn)) {
			explained++
			continue
		}
		openDis = append(openDis, d)
	}
	if explained > 0 {
		cx.note(fmt.Sprintf("%d correspondence disagreements on recipes of the known-finding shape dict-registers-imports-in-map-order (order is a model parameter)", explained))
	}
	if (len(openDis) > 0 || len(failed) > 0) && nViol == 0 {
		// the search found no concrete failing input (the oracle ran on every generated case)
		nrep++
		p := filepath.Join(*replays, fmt.Sprintf("%s-%d-%d.json", prop, *seed, nrep))
		rep := map[string]interface{}{"kind": "broken-tie", "failed_obligations": failed, "rerun": "bin/check " + prop + " --replay " + p}
		if len(openDis) > 0 {
			var shrunk *Disagreement
			d := openDis[0]
			if d.Level != "callbacks" {
				shrunk = shrink(d)
			}
			if shrunk == nil {
				shrunk = &d
			}
			rep["correspondence"] = map[string]interface{}{"component": "renderer/registry (model vs implementation)", "count": len(openDis),
				"case": shrunk.Case.Text(), "render_op": shrunk.OpIndex, "level": shrunk.Level, "model_expects": shrunk.Expected, "implementation_gives": shrunk.Got, "detail": shrunk.Detail}
		}
		writeJSON(p, rep)
		fmt.Printf("VIOLATION property=%s replay=%s no-failing-input-found\n", prop, p)
		exit = 1
		nViol++
	} else if len(openDis) > 0 {
		// there is a concrete failing input already; still record the disagreement
		d := openDis[0]
		cx.note(fmt.Sprintf("correspondence disagreements: %d (first at render op %d: expected %q got %q)", len(openDis), d.OpIndex, trunc(d.Expected), trunc(d.Got)))
	}

	if *evidence != "" {
		ev := map[string]interface{}{
			"corpus_cases":                    nCorpus,
			"correspondence_cases":            cx.Stats.Cases,
			"correspondence_render_ops":       cx.Stats.RenderOps,
			"correspondence_disagreements":    len(dis),
			"outcome_classes":                 cx.Stats.Outcomes,
			"distinct_nontrivial":             cx.Stats.Distinct,
			"oracle_cases":                    cx.Stats.OracleCases,
			"oracle_findings":                 len(findings),
			"violations":                      nViol,
			"samples":                         cx.Samples,
			"notes":                           cx.Stats.Notes,
			"histogram":                       cx.Stats.Hist,
			"harness_wall_s":                  time.Since(start).Seconds(),
			"extra":                           cx.Extra,
		}
		writeJSON(*evidence, ev)
	}
	return exit
}

func hashStr(s string) uint64 {
	var h uint64 = 1469598103934665603
	for i := 0; i < len(s); i++ {
		h ^= uint64(s[i])
		h *= 1099511628211
	}
	return h
}

func cmdReplay(args []string) int {
	if len(args) < 1 {
		return 2
	}
	b, err := os.ReadFile(args[0])
	if err != nil {
		fmt.Fprintln(os.Stderr, err)
		return 2
	}
	var rep map[string]interface{}
	json.Unmarshal(b, &rep)
	text := ""
	if f, ok := rep["finding"].(map[string]interface{}); ok {
		text, _ = f["case"].(string)
		fmt.Printf("finding: %v\nexpected: %v\nobserved: %v\n", f["what"], f["expected"], f["observed"])
	}
	if c, ok := rep["correspondence"].(map[string]interface{}); ok {
		text, _ = c["case"].(string)
	}
	if fo, ok := rep["failed_obligations"].([]interface{}); ok && len(fo) > 0 {
		fmt.Printf("failed proof obligations: %v (re-check with: cd /verif/lean && lake build)\n", fo)
	}
	if text == "" {
		return 0
	}
	if strings.HasPrefix(text, "direct ") {
		return replayDirect(text)
	}
	if f, ok := rep["finding"].(map[string]interface{}); ok && f["sequence"] == true {
		return replaySequence(text)
	}
	cs, err := ParseCases(text)
	if err != nil {
		fmt.Fprintln(os.Stderr, "cannot parse recipe:", err)
		return 2
	}
	runs, err := RunAll(cs, 1)
	if err != nil {
		fmt.Fprintln(os.Stderr, err)
		return 2
	}
	for _, cr := range runs {
		fmt.Print(cr.Case.Text())
		for i, r := range cr.Real {
			m := ModelObs{}
			if i < len(cr.Model) {
				m = cr.Model[i]
			}
			fmt.Printf("--- render op %d\nmodel   : %s %s\nreal    : %s %s %s\n", i, m.Class, strconv.Quote(m.Raw), r.Class, strconv.Quote(r.Out), r.Err)
		}
		if cr.BuildPanic != "" {
			fmt.Println("build panic:", cr.BuildPanic)
		}
		for _, d := range cr.Dis {
			fmt.Printf("DISAGREEMENT op=%d level=%s expected=%q got=%q\n", d.OpIndex, d.Level, d.Expected, d.Got)
		}
	}
	return 0
}

// shrink: delete ops / items while the disagreement persists.
func shrink(d Disagreement) *Disagreement {
	best := d
	bestCase := d.Case
	try := func(c *Case) bool {
		runs, err := RunAll([]*Case{c}, 1)
		if err != nil || len(runs) == 0 || len(runs[0].Dis) == 0 {
			return false
		}
		nd := runs[0].Dis[0]
		if nd.Level == "machinery" || nd.Level != d.Level {
			return false
		}
		best = nd
		bestCase = c
		return true
	}
	for round := 0; round < 4; round++ {
		improved := false
		for i := len(bestCase.Ops) - 1; i >= 0; i-- {
			o := bestCase.Ops[i]
			if o.Kind == OpFile || (o.IsRender() && countRenders(bestCase) <= 1) {
				continue
			}
			c2 := &Case{ID: bestCase.ID, Ops: append(append([]Op{}, bestCase.Ops[:i]...), bestCase.Ops[i+1:]...)}
			if validRefs(c2) && try(c2) {
				improved = true
			}
		}
		// shrink argument lists of fadd ops
		for i := range bestCase.Ops {
			o := bestCase.Ops[i]
			if o.Kind == OpFAdd || o.Kind == OpStmt || o.Kind == OpApp || o.Kind == OpFNew {
				for _, alt := range shrinkOp(o) {
					c2 := &Case{ID: bestCase.ID, Ops: append([]Op{}, bestCase.Ops...)}
					c2.Ops[i] = alt
					if try(c2) {
						improved = true
						break
					}
				}
			}
		}
		if !improved {
			break
		}
	}
	best.Case = bestCase
	return &best
}

func countRenders(c *Case) int {
	n := 0
	for _, o := range c.Ops {
		if o.IsRender() {
			n++
		}
	}
	return n
}

func validRefs(c *Case) bool {
	regs := map[int]bool{}
	files := map[int]bool{}
	var okArg func(a Arg) bool
	var okItems func(items []SItem) bool
	okArgs := func(as []Arg) bool {
		for _, a := range as {
			if !okArg(a) {
				return false
			}
		}
		return true
	}
	okArg = func(a Arg) bool {
		switch x := a.(type) {
		case Ref:
			return regs[x.Reg]
		case *Stmt:
			return okItems(x.Items)
		case *Dict:
			for _, p := range x.Pairs {
				if !okArg(p[0]) || !okArg(p[1]) {
					return false
				}
			}
		}
		return true
	}
	okItems = func(items []SItem) bool {
		for _, it := range items {
			switch x := it.(type) {
			case *Grp:
				if !okArgs(x.Args) {
					return false
				}
			case *GrpFunc:
				for _, fi := range x.Items {
					if !okArg(fi.A) {
						return false
					}
				}
			case *Custom:
				if !okArgs(x.Args) {
					return false
				}
			case *CustomFunc:
				for _, fi := range x.Items {
					if !okArg(fi.A) {
						return false
					}
				}
			case *AddItems:
				if !okArgs(x.Args) {
					return false
				}
			}
		}
		return true
	}
	for _, o := range c.Ops {
		switch o.Kind {
		case OpFile:
			files[o.F] = true
		case OpStmt:
			if !okItems(o.Items) {
				return false
			}
			regs[o.S] = true
		case OpApp:
			if !regs[o.S] || !okItems(o.Items) {
				return false
			}
		case OpClone:
			if !regs[o.S2] {
				return false
			}
			regs[o.S] = true
		case OpFAdd:
			if !files[o.F] || !okArgs(o.Args) {
				return false
			}
		case OpFNew:
			if !files[o.F] || !okItems(o.Items) || len(o.Items) == 0 {
				return false
			}
			regs[o.S] = true
		case OpFrag:
			if !regs[o.S] || !files[o.F] {
				return false
			}
		case OpGFrag:
			if !files[o.F] || !files[o.F2] {
				return false
			}
		case OpLower:
		default:
			if !files[o.F] {
				return false
			}
		}
	}
	return true
}

// shrinkOp proposes smaller variants of a build op: drop one top-level item, or replace an
// item's arguments by a sub-list / hoist an argument.
func shrinkOp(o Op) []Op {
	var out []Op
	if o.Kind == OpFAdd {
		for i := range o.Args {
			if len(o.Args) > 1 {
				n := o
				n.Args = append(append([]Arg{}, o.Args[:i]...), o.Args[i+1:]...)
				out = append(out, n)
			}
			if s, ok := o.Args[i].(*Stmt); ok {
				for _, alt := range shrinkItems(s.Items) {
					n := o
					n.Args = append([]Arg{}, o.Args...)
					n.Args[i] = &Stmt{Items: alt}
					out = append(out, n)
				}
			}
		}
		return out
	}
	min := 0
	if o.Kind == OpFNew {
		min = 1
	}
	for _, alt := range shrinkItems(o.Items) {
		if len(alt) >= min {
			n := o
			n.Items = alt
			out = append(out, n)
		}
	}
	return out
}

func shrinkItems(items []SItem) [][]SItem {
	var out [][]SItem
	for i := range items {
		if len(items) > 1 {
			out = append(out, append(append([]SItem{}, items[:i]...), items[i+1:]...))
		}
		repl := func(it SItem) {
			n := append([]SItem{}, items...)
			n[i] = it
			out = append(out, n)
		}
		hoist := func(args []Arg) {
			for _, a := range args {
				if s, ok := a.(*Stmt); ok && len(s.Items) > 0 {
					n := append(append(append([]SItem{}, items[:i]...), s.Items...), items[i+1:]...)
					out = append(out, n)
				}
			}
		}
		switch x := items[i].(type) {
		case *Grp:
			if _, fixed := grpFixed[x.Api]; !fixed {
				for j := range x.Args {
					repl(&Grp{Api: x.Api, Args: append(append([]Arg{}, x.Args[:j]...), x.Args[j+1:]...)})
				}
			}
			hoist(x.Args)
			for j, a := range x.Args {
				if s, ok := a.(*Stmt); ok {
					for _, alt := range shrinkItems(s.Items) {
						na := append([]Arg{}, x.Args...)
						na[j] = &Stmt{Items: alt}
						repl(&Grp{Api: x.Api, Args: na})
					}
				}
			}
		case *GrpFunc:
			var args []Arg
			for _, fi := range x.Items {
				args = append(args, fi.A)
			}
			repl(&Grp{Api: x.Api, Args: args})
		case *AddItems:
			hoist(x.Args)
			for j := range x.Args {
				repl(&AddItems{Args: append(append([]Arg{}, x.Args[:j]...), x.Args[j+1:]...)})
			}
		case *Custom:
			hoist(x.Args)
		}
	}
	sort.SliceStable(out, func(a, b int) bool { return len(serItems(out[a])) < len(serItems(out[b])) })
	if len(out) > 40 {
		out = out[:40]
	}
	return out
}

// inputDistribution: what the generated recipes consist of (evidence: which operations, item
// kinds, constructs, sizes and settings the correspondence of this run actually exercised).
func inputDistribution(cx *CheckCtx, cases []*Case) {
	opNames := map[OpKind]string{OpFile: "file", OpSet: "set", OpHintName: "ImportName", OpHintAlias: "ImportAlias", OpHintNames: "ImportNames", OpAnon: "Anon",
		OpHeader: "HeaderComment", OpPkgComment: "PackageComment", OpCgo: "CgoPreamble", OpStmt: "statement", OpApp: "append-to-statement", OpClone: "Clone",
		OpFAdd: "File.Add", OpFNew: "File.<construct>", OpRender: "File.Render", OpFrag: "Statement.RenderWithFile", OpGFrag: "Group.RenderWithFile", OpLower: "toLower-sample"}
	bucket := func(n int) string {
		switch {
		case n == 0:
			return "0"
		case n <= 3:
			return "1-3"
		case n <= 10:
			return "4-10"
		case n <= 30:
			return "11-30"
		case n <= 100:
			return "31-100"
		}
		return ">100"
	}
	h := func(k string) { cx.hist(k) }
	for _, c := range cases {
		if c.ModelText != "" {
			h("case:syntax-term(three-way)")
		}
		items, renders := 0, 0
		for _, o := range c.Ops {
			h("op:" + opNames[o.Kind])
			switch {
			case o.Kind == OpSet:
				h("setting:" + o.Str[0])
			case o.Kind == OpFile:
				h("file-ctor:" + o.Str[0])
			case o.Kind == OpHintAlias && o.Str[1] == ".":
				h("hint:dot-import")
			case o.IsRender():
				renders++
			}
		}
		walkCase(c, &termVisitor{
			item: func(it SItem) {
				items++
				switch x := it.(type) {
				case Tok:
					h("item:token")
				case Qual:
					h("item:Qual")
				case Lit:
					h("item:Lit/" + x.Type)
				case *Grp:
					h("item:group")
					h("construct:" + x.Api)
					h("arity:" + bucket(len(x.Args)))
				case *GrpFunc:
					h("item:group-callback")
					h("construct:" + x.Api + "Func")
				case *Custom, *CustomFunc:
					h("item:Custom")
				case Tag:
					h("item:Tag")
				case Comment:
					h("item:Comment")
				case *AddItems:
					h("item:Add")
				}
			},
			arg: func(a Arg) {
				switch x := a.(type) {
				case Nil, TypedNil:
					h("arg:nil")
				case Ref:
					h("arg:shared-statement-pointer")
				case *Dict:
					h("arg:Dict")
					h("dict-pairs:" + bucket(len(x.Pairs)))
				}
			},
		})
		h("items-per-case:" + bucket(items))
		h("renders-per-case:" + bucket(renders))
	}
}
