package main

// Implementation-side oracle for the import properties C03 C04 C05 C06 C19 (and C18):
// decides them on the REAL library's output with go/parser, independently of the model.
//
// Convention: the i-th path of a case's pool is only ever referenced as Qual(path, "Q<i>z"),
// so a selector `q.Q7z` (or a bare `Q7z`) in the output identifies the path it was built from.

import (
	"unicode"
	"fmt"
	"go/ast"
	"go/parser"
	"go/token"
	"go/types"
	"os"
	"path/filepath"
	"regexp"
	"strconv"
	"strings"
	"sync"
)

type ImportProblem struct {
	Kind string // see below
	Prop string
	What string
	Name string
}

var qNameRe = regexp.MustCompile(`^Q(\d+)z$`)

func qName(i int) string { return fmt.Sprintf("Q%dz", i) }

// FileTruth: what the recipe says about one file (hints as they stand at the render).
type FileTruth struct {
	Local    string
	HasLocal bool
	Hints    map[string][2]string // path -> (name, "alias"|"name")
	Anon     map[string]bool
	Preamble int
	Preambles []string // the CgoPreamble texts, in the order given
	// EarlierSeen: paths that appeared in an earlier output produced with this File (a fragment
	// rendered with it, an earlier File.Render): C08 promises the block keeps declaring them
	EarlierSeen map[string]bool
	Prefix   string
	Pool     []string
	// EverDot: paths that were declared a dot-import at some point of the File's history
	EverDot map[string]bool
	// Fixed: paths that appeared in an earlier output of this File -> were they dot-imported THEN
	// (a registered path keeps its status whatever is hinted afterwards, C08)
	Fixed map[string]bool
}

var stdNameCache sync.Map

// stdDeclName returns the declared package name of a standard-library path of the installed
// toolchain ("" if the path is not a package directory there).
func stdDeclName(path string) string {
	if v, ok := stdNameCache.Load(path); ok {
		return v.(string)
	}
	name := ""
	if path == "unsafe" {
		name = "unsafe"
	} else if path != "" && !strings.ContainsAny(path, " \\\x00") && !strings.HasPrefix(path, "/") && !strings.Contains(path, "..") {
		dir := filepath.Join(goroot(), "src", filepath.FromSlash(path))
		if ents, err := os.ReadDir(dir); err == nil {
			fset := token.NewFileSet()
			for _, e := range ents {
				n := e.Name()
				if e.IsDir() || !strings.HasSuffix(n, ".go") || strings.HasSuffix(n, "_test.go") {
					continue
				}
				f, err := parser.ParseFile(fset, filepath.Join(dir, n), nil, parser.PackageClauseOnly)
				if err == nil && f.Name.Name != "main" && f.Name.Name != "documentation" {
					name = f.Name.Name
					break
				}
			}
		}
	}
	stdNameCache.Store(path, name)
	return name
}

var gorootOnce sync.Once
var gorootDir string

func goroot() string {
	gorootOnce.Do(func() {
		gorootDir = os.Getenv("VERIF_GOROOT")
		if gorootDir == "" {
			for _, d := range []string{"/usr/share/go-1.23", "/usr/lib/go-1.23", "/usr/local/go", "/usr/lib/go"} {
				if _, err := os.Stat(filepath.Join(d, "src", "fmt")); err == nil {
					gorootDir = d
					break
				}
			}
		}
	})
	return gorootDir
}

func truthOf(c *Case, f int, upto int) *FileTruth {
	t := &FileTruth{Hints: map[string][2]string{}, Anon: map[string]bool{}, EverDot: map[string]bool{}}
	for i, o := range c.Ops {
		if i >= upto {
			break
		}
		if o.Kind != OpLower && o.Kind != OpStmt && o.Kind != OpApp && o.Kind != OpClone && o.F != f {
			continue
		}
		switch o.Kind {
		case OpFile:
			t.HasLocal = true
			if o.Str[0] != "new" {
				t.Local = o.Str[1]
			}
		case OpSet:
			if o.Str[0] == "prefix" {
				t.Prefix = o.Str[1]
			}
		case OpHintName:
			t.Hints[o.Str[0]] = [2]string{o.Str[1], "name"}
		case OpHintAlias:
			t.Hints[o.Str[0]] = [2]string{o.Str[1], "alias"}
			if o.Str[1] == "." {
				t.EverDot[o.Str[0]] = true
			}
		case OpHintNames:
			for _, kv := range o.KV {
				t.Hints[kv[0]] = [2]string{kv[1], "name"}
			}
		case OpAnon:
			for _, p := range o.Str {
				t.Anon[p] = true
			}
		case OpCgo:
			t.Preamble++
			t.Preambles = append(t.Preambles, o.Str[0])
		}
	}
	return t
}

func (t *FileTruth) declName(p string) string {
	if h, ok := t.Hints[p]; ok && h[1] == "name" && h[0] != "" {
		return h[0]
	}
	if n := stdDeclName(p); n != "" {
		return n
	}
	return "\x00unknown"
}

func (t *FileTruth) isDot(p string) bool {
	if d, ok := t.Fixed[p]; ok {
		return d && p != "C"
	}
	h, ok := t.Hints[p]
	return ok && h[0] == "." && h[1] == "alias" && p != "C"
}

type importSpec struct{ name, path string }

func parseImports(f *ast.File) []importSpec {
	var out []importSpec
	for _, is := range f.Imports {
		p, _ := strconv.Unquote(is.Path.Value)
		n := ""
		if is.Name != nil {
			n = is.Name.Name
		}
		out = append(out, importSpec{n, p})
	}
	return out
}

// usesOf returns, per pool index, the set of qualifiers it appears under ("" = bare).
func usesOf(f *ast.File) map[int]map[string]bool {
	uses := map[int]map[string]bool{}
	add := func(i int, q string) {
		if uses[i] == nil {
			uses[i] = map[string]bool{}
		}
		uses[i][q] = true
	}
	sel := map[*ast.Ident]bool{}
	ast.Inspect(f, func(n ast.Node) bool {
		if se, ok := n.(*ast.SelectorExpr); ok {
			if m := qNameRe.FindStringSubmatch(se.Sel.Name); m != nil {
				sel[se.Sel] = true
				i, _ := strconv.Atoi(m[1])
				if x, ok := se.X.(*ast.Ident); ok {
					add(i, x.Name)
				} else {
					add(i, "\x00complex")
				}
			}
		}
		return true
	})
	ast.Inspect(f, func(n ast.Node) bool {
		if id, ok := n.(*ast.Ident); ok && !sel[id] {
			if m := qNameRe.FindStringSubmatch(id.Name); m != nil {
				i, _ := strconv.Atoi(m[1])
				add(i, "")
			}
		}
		return true
	})
	return uses
}

func checkImports(t *FileTruth, src string) []ImportProblem {
	var ps []ImportProblem
	add := func(prop, kind, what string) { ps = append(ps, ImportProblem{Kind: kind, Prop: prop, What: what}) }
	fset := token.NewFileSet()
	f, err := parser.ParseFile(fset, "out.go", src, parser.ParseComments)
	if err != nil {
		add("*", "unparseable", "rendered file does not parse: "+err.Error())
		return ps
	}
	specs := parseImports(f)
	byPath := map[string][]importSpec{}
	for _, s := range specs {
		byPath[s.path] = append(byPath[s.path], s)
	}
	for p, ss := range byPath {
		if len(ss) > 1 {
			add("C04", "duplicate-import", fmt.Sprintf("path %q imported %d times", p, len(ss)))
		}
	}
	uses := usesOf(f)
	referenced := map[string]bool{}
	for i, qs := range uses {
		if i >= len(t.Pool) {
			continue
		}
		p := t.Pool[i]
		referenced[p] = true
		switch {
		case t.HasLocal && p == t.Local:
			for q := range qs {
				if q != "" {
					add("C06", "local-qualified", fmt.Sprintf("local path %q referenced as %s.%s", p, q, qName(i)))
				}
			}
			for _, sp := range byPath[p] {
				if sp.name != "_" {
					add("C06", "local-imported", fmt.Sprintf("local path %q is imported", p))
					// (also C04: the block lists a path although no NON-LOCAL identifier was rendered for it)
					add("C04", "local-imported", fmt.Sprintf("the import block lists the File's own path %q", p))
				}
			}
		case t.isDot(p):
			for q := range qs {
				if q != "" {
					add("C06", "dot-qualified", fmt.Sprintf("dot-imported path %q referenced as %s.%s", p, q, qName(i)))
				}
			}
			ok := false
			for _, s := range byPath[p] {
				if s.name == "." {
					ok = true
				}
			}
			if !ok {
				add("C06", "dot-missing", fmt.Sprintf("dot-imported path %q has no `import . %q`", p, p))
			}
		default:
			if qs[""] && p == "C" {
				add("C19", "C-dot-hint", "the pseudo-package \"C\" is referenced by a bare identifier (not as C.name)")
			} else if qs[""] {
				add("C03", "unqualified-remote", fmt.Sprintf("path %q referenced by a bare identifier", p))
			}
			var q string
			n := 0
			for x := range qs {
				if x != "" {
					q = x
					n++
				}
			}
			if n > 1 {
				add("C03", "inconsistent-qualifier", fmt.Sprintf("path %q referenced under %d different qualifiers", p, n))
			}
			if n == 0 {
				continue
			}
			if len(byPath[p]) == 0 {
				add("C04", "missing-import", fmt.Sprintf("path %q referenced as %s but not imported", p, q))
				continue
			}
			s := byPath[p][0]
			if p == "C" {
				if q != "C" {
					add("C19", "C-renamed", fmt.Sprintf("\"C\" referenced as %s", q))
				}
				if s.name != "" {
					add("C19", "C-aliased", fmt.Sprintf("\"C\" imported with name %s", s.name))
				}
				continue
			}
			if q == "_" || (s.name == "_" && q != "") {
				// a blank import binds no name: nothing can be referred to through it
				add("C03", "blank-import-referenced", fmt.Sprintf("path %q is referenced as %s.… but imported as %q: a blank import provides no name", p, q, s.name))
			} else if s.name != "" {
				if s.name != q {
					add("C03", "wrong-binding", fmt.Sprintf("path %q imported as %s but referenced as %s", p, s.name, q))
				}
			} else if t.declName(p) != q {
				add("C03", "unaliased-guess", fmt.Sprintf("path %q imported without alias but referenced as %s (declared name: %q)", p, q, strings.TrimPrefix(t.declName(p), "\x00")))
			}
		}
	}
	// every import must be justified
	for _, s := range specs {
		switch {
		case s.name == "_":
			if !t.Anon[s.path] {
				add("C04", "extra-anon", fmt.Sprintf("anonymous import of %q never requested", s.path))
			}
		case s.path == "C" && t.Preamble > 0:
		case s.path == "C" && t.Anon["C"]:
		default:
			if !referenced[s.path] && !t.EarlierSeen[s.path] {
				add("C04", "unused-import", fmt.Sprintf("path %q imported but never referenced in the output", s.path))
			}
		}
	}
	for p := range t.Anon {
		if len(byPath[p]) == 0 && !(t.HasLocal && p == t.Local) {
			add("C04", "missing-anon", fmt.Sprintf("anonymous import %q missing", p))
		}
	}
	// names
	seen := map[string]string{}
	for _, s := range specs {
		name := s.name
		if name == "_" || name == "." {
			continue
		}
		if s.path == "C" {
			continue
		}
		if name != "" {
			if !token.IsIdentifier(name) {
				add("C05", "illegal-name", fmt.Sprintf("import name %q for %q is not an identifier", name, s.path))
			} else if types.Universe.Lookup(name) != nil {
				ps = append(ps, ImportProblem{Kind: "predeclared-name", Prop: "C05", Name: name, What: fmt.Sprintf("import name %q for %q is a predeclared identifier", name, s.path)})
			}
		} else {
			name = t.declName(s.path)
			if strings.HasPrefix(name, "\x00") {
				continue
			}
		}
		if other, dup := seen[name]; dup && other != s.path {
			add("C05", "duplicate-name", fmt.Sprintf("paths %q and %q share the import name %s", other, s.path, name))
			add("C03", "ambiguous-qualifier", fmt.Sprintf("qualifier %s is bound to both %q and %q", name, other, s.path))
		}
		seen[name] = s.path
	}
	// cgo preamble placement
	if t.Preamble > 0 {
		found := false
		for _, d := range f.Decls {
			gd, ok := d.(*ast.GenDecl)
			if !ok || gd.Tok != token.IMPORT {
				continue
			}
			for _, sp := range gd.Specs {
				is := sp.(*ast.ImportSpec)
				if is.Path.Value == `"C"` {
					found = true
					if len(gd.Specs) != 1 {
						add("C19", "C-not-separate", "import \"C\" is grouped with other imports although a preamble exists")
					}
					doc := gd.Doc
					if doc == nil {
						doc = is.Doc
					}
					if doc == nil {
						add("C19", "preamble-detached", "import \"C\" has no doc comment (preamble not adjacent)")
					} else {
						// every preamble text, in the order given (repeats included), inside the doc
						// comment; compared without white space (gofmt re-indents and trims comments)
						squash := func(x string) string {
							return strings.Map(func(r rune) rune {
								if r <= ' ' || r == 0x7f || unicode.IsSpace(r) {
									return -1
								}
								return r
							}, x)
						}
						var all strings.Builder
						for _, cm := range doc.List {
							all.WriteString(squash(cm.Text))
						}
						rest := all.String()
						for i, pt := range t.Preambles {
							want := squash(pt)
							if want == "" || strings.ContainsAny(pt, "`'") || strings.Contains(pt, "*/") {
								continue // texts gofmt rewrites, or that end the comment themselves
							}
							k := strings.Index(rest, want)
							if k < 0 {
								add("C19", "preamble-text-missing", fmt.Sprintf("preamble block %d (%q) is not in the comment above import \"C\" at its place in the order given", i, pt))
								break
							}
							rest = rest[k+len(want):]
						}
					}
				}
			}
		}
		if !found {
			add("C19", "C-missing", "preamble given but no import \"C\"")
		}
	}
	return ps
}
