package main

import (
	"bufio"
	"bytes"
	"fmt"
	"go/format"
	"io"
	"os"
	"path/filepath"
	"strings"
	"sync"
	"syscall"

	"github.com/dave/jennifer/jen"
)

func formatSource(raw string) (string, error) {
	b, err := format.Source([]byte(raw))
	return string(b), err
}

// ---------------------------------------------------------------- C14: forms

func oracleC14(cx *CheckCtx, runs []*CaseRun) []Finding {
	var fs []Finding
	for ci, cr := range runs {
		if cr.BuildPanic != "" || len(cr.Real) == 0 {
			continue
		}
		cx.Stats.OracleCases++
		for _, policy := range []int{0, 1, 2, 5, -1} {
			// (5 selects Group.Do for Group-form items and Do on a fresh statement)
			fc := &FormChooser{r: NewRng(uint64(ci) + 99), Fixed: policy}
			obs, bp := RunReal(cr.Case, fc, false)
			if bp != "" {
				fs = append(fs, Finding{Property: "C14", Shape: "form-build-panic", What: fmt.Sprintf("building with form policy %d panics: %s", policy, bp), Case: cr.Case.Text()})
				break
			}
			if fc.CbCalls != fc.CbBuilt || fc.CbDuringRender != 0 {
				fs = append(fs, Finding{Property: "C14", Shape: "callback-count", What: fmt.Sprintf("%d callbacks built, %d invocations, %d of them during rendering", fc.CbBuilt, fc.CbCalls, fc.CbDuringRender), Case: cr.Case.Text()})
				break
			}
			bad := false
			for i := range cr.Real {
				if i < len(obs) && (obs[i].Class != cr.Real[i].Class || obs[i].Out != cr.Real[i].Out) {
					fs = append(fs, Finding{Property: "C14", Shape: "forms-differ", What: fmt.Sprintf("the same construction through form policy %d renders differently", policy), Case: cr.Case.Text(), Expected: trunc(cr.Real[i].Out), Observed: trunc(obs[i].Out)})
					bad = true
					break
				}
			}
			if bad {
				break
			}
		}
		// the Group form (fnew) must be equivalent to building the statement with the function /
		// statement forms and adding it to the group afterwards
		{
			alt := &Case{ID: cr.Case.ID + "-viaAdd"}
			changed := false
			for _, o := range cr.Case.Ops {
				if o.Kind == OpFNew {
					alt.Ops = append(alt.Ops, Op{Kind: OpStmt, S: o.S, Items: o.Items}, Op{Kind: OpFAdd, F: o.F, Args: []Arg{Ref{Reg: o.S}}})
					changed = true
				} else {
					alt.Ops = append(alt.Ops, o)
				}
			}
			if changed {
				obs, bp := RunReal(alt, &FormChooser{r: NewRng(uint64(ci) + 5), Fixed: 1}, false)
				if bp == "" {
					for i := range cr.Real {
						if i < len(obs) && (obs[i].Class != cr.Real[i].Class || obs[i].Out != cr.Real[i].Out) {
							fs = append(fs, Finding{Property: "C14", Shape: "group-form-differs", What: "building a statement through the Group form renders differently from building it with the function/statement form and adding it to the group", Case: cr.Case.Text(), Expected: trunc(obs[i].Out), Observed: trunc(cr.Real[i].Out)})
							break
						}
					}
				}
			}
		}
		// GoString = Render = RenderWithFile(fresh file) for every statement register
		rl := NewReal(&FormChooser{r: NewRng(5), Fixed: 1})
		func() {
			defer func() { recover() }()
			for _, o := range cr.Case.Ops {
				if o.IsRender() {
					continue
				}
				rl.exec(o)
			}
			for reg, s := range rl.regs {
				var a, b bytes.Buffer
				e1 := s.Render(&a)
				e2 := s.RenderWithFile(&b, jen.NewFile(""))
				if (e1 == nil) != (e2 == nil) || a.String() != b.String() {
					fs = append(fs, Finding{Property: "C14", Shape: "render-entrypoints-differ", What: fmt.Sprintf("S%d: Render and RenderWithFile(fresh file) disagree", reg), Case: cr.Case.Text(), Expected: trunc(a.String()), Observed: trunc(b.String())})
					return
				}
				if e1 == nil {
					if g := s.GoString(); g != a.String() {
						fs = append(fs, Finding{Property: "C14", Shape: "render-entrypoints-differ", What: fmt.Sprintf("S%d: GoString and Render disagree", reg), Case: cr.Case.Text(), Expected: trunc(a.String()), Observed: trunc(g)})
						return
					}
				}
			}
		}()
	}
	return fs
}

// ---------------------------------------------------------------- C09: files do not interfere

func oracleC09(cx *CheckCtx, runs []*CaseRun) []Finding {
	var fs []Finding
	// jobs = the cases themselves (each builds and renders its own files).  Reference: each job
	// alone (cr.Real).  Then: all jobs sequentially in reversed and in shuffled order inside
	// one process, and all jobs concurrently on goroutines (the -race build observes those).
	n := len(runs)
	type res struct {
		obs []RenderObs
		bp  string
	}
	runOrder := func(order []int, concurrent bool) []res {
		out := make([]res, n)
		if !concurrent {
			for _, i := range order {
				o, bp := RunReal(runs[i].Case, &FormChooser{r: NewRng(uint64(i)*7919 + 1), Fixed: -1}, false)
				out[i] = res{o, bp}
			}
			return out
		}
		var wg sync.WaitGroup
		sem := make(chan struct{}, 16)
		for _, i := range order {
			wg.Add(1)
			sem <- struct{}{}
			go func(i int) {
				defer wg.Done()
				defer func() { <-sem }()
				o, bp := RunReal(runs[i].Case, &FormChooser{r: NewRng(uint64(i)*7919 + 1), Fixed: -1}, false)
				out[i] = res{o, bp}
			}(i)
		}
		wg.Wait()
		return out
	}
	order := make([]int, n)
	for i := range order {
		order[i] = n - 1 - i
	}
	shuffled := make([]int, n)
	copy(shuffled, order)
	for i := n - 1; i > 0; i-- {
		j := cx.R.Intn(i + 1)
		shuffled[i], shuffled[j] = shuffled[j], shuffled[i]
	}
	reversed := runOrder(order, false)
	// reference = the job ALONE in a fresh process (see fresh.go); sampled, plus every job on
	// which model and implementation already disagree
	var sample []int
	for i, r := range runs {
		if len(r.Dis) > 0 && len(sample) < 20 && r.BuildPanic == "" {
			sample = append(sample, i)
		}
	}
	for k := 0; k < cx.N(80, 3000) && n > 0; k++ {
		sample = append(sample, cx.R.Intn(n))
	}
	fs = append(fs, soloInterference(cx, runs, func(i int) []RenderObs { return reversed[i].obs }, sample)...)
	for name, rs := range map[string][]res{"reversed order": reversed, "shuffled order": runOrder(shuffled, false), "concurrently": runOrder(shuffled, true)} {
		for i, r := range rs {
			cx.Stats.OracleCases++
			ref := runs[i].Real
			for k := range ref {
				if k >= len(r.obs) || r.obs[k].Class != ref[k].Class || r.obs[k].Out != ref[k].Out {
					if dictRegistersInMapOrder(runs[i].Case) || hasEqualKeyTexts(runs[i].Case) {
						break
					}
					got := ""
					if k < len(r.obs) {
						got = r.obs[k].Out + r.obs[k].Err
					}
					fs = append(fs, Finding{Property: "C09", Shape: "output-depends-on-other-files", What: fmt.Sprintf("job rendered differently when all jobs ran %s", name), Case: runs[i].Case.Text(), Expected: trunc(ref[k].Out), Observed: trunc(got)})
					break
				}
			}
		}
	}
	return fs
}

// multi-file case: two or three files sharing sub-statements, rendered one after another
func genSharedCase(cx *CheckCtx, i int) *Case {
	r := cx.R.Fork()
	pool := sanePool(r, 3+r.Intn(4))
	c := &Case{ID: fmt.Sprintf("C09-%d-%d", cx.Seed, i)}
	nf := 2 + r.Intn(2)
	for f := 0; f < nf; f++ {
		c.Ops = append(c.Ops, genFileSetup(r, f, pool, defaultFileCfg)...)
	}
	g := validGen(r, pool)
	g.dicts = false
	reg := 0
	for d := 0; d < 2+r.Intn(3); d++ {
		reg++
		c.Ops = append(c.Ops, Op{Kind: OpStmt, S: reg, Items: g.decl(3).Items})
		for f := 0; f < nf; f++ {
			if r.Chance(70) {
				c.Ops = append(c.Ops, Op{Kind: OpFAdd, F: f, Args: []Arg{Ref{Reg: reg}}})
			}
		}
	}
	for k := 0; k < nf+1; k++ {
		c.Ops = append(c.Ops, Op{Kind: OpRender, F: r.Intn(nf)})
	}
	return dropInsane(c)
}

// ---------------------------------------------------------------- C10: failure atomicity

type fxLine struct {
	kind           string
	noFormat, mis  bool
	raw            string
	fmtOK          bool
	fmtOut         string
	writerOK, fsOK bool
}

func (l fxLine) String() string {
	return fmt.Sprintf("fx %s %s %s %s %s %s %s %s", l.kind, b01(l.noFormat), b01(l.mis), esc(l.raw), b01(l.fmtOK), esc(l.fmtOut), b01(l.writerOK), b01(l.fsOK))
}

func oracleC10(cx *CheckCtx, runs []*CaseRun) []Finding {
	var fs []Finding
	tmp, err := os.MkdirTemp("", "verif-c10-")
	if err != nil {
		return nil
	}
	defer os.RemoveAll(tmp)
	type expect struct {
		cr   *CaseRun
		what string
		got  string // observed: "<class> <effects>"
		line fxLine
	}
	var exps []expect
	for ci, cr := range runs {
		if cr.BuildPanic != "" || len(cr.Model) == 0 || len(cr.Real) == 0 {
			continue
		}
		nf := noFormatAt(cr.Case)
		ops := renderOps(cr.Case)
		// only the first render op of each case is replayed with faults
		o := ops[0]
		if len(cr.Dis) > 0 {
			// model and implementation already disagree on this recipe: an expectation derived
			// from the model's raw bytes would not be about the implementation
			continue
		}
		m := cr.Model[0]
		raw := m.Raw
		mis := m.Class == "err:misuse"
		if o.Kind == OpRender {
			// the raw source comes from the implementation itself (NoFormat twin of the same recipe)
			twin, bp := RunReal(cr.Case, &FormChooser{r: NewRng(uint64(ci)*7919 + 1), Fixed: -1}, true)
			if bp != "" || len(twin) == 0 {
				continue
			}
			switch twin[0].Class {
			case "ok":
				raw, mis = twin[0].Out, false
			case "err:misuse":
				raw, mis = "", true
			default:
				continue
			}
		}
		noFormat := nf[0]
		fmtOut, fmtOK := "", true
		if !mis {
			b, e := formatSource(raw)
			fmtOut, fmtOK = b, e == nil
		}
		replay := func(failAt int) (*Real, RenderObs) {
			rl := NewReal(&FormChooser{r: NewRng(uint64(ci)*7919 + 1), Fixed: -1})
			var obs RenderObs
			func() {
				defer func() {
					if r := recover(); r != nil {
						obs = RenderObs{Class: "panic", Err: fmt.Sprint(r)}
					}
				}()
				for _, op := range cr.Case.Ops {
					if op.IsRender() {
						op.WriterFailAt = failAt
						obs = rl.render(op)
						return
					}
					rl.exec(op)
				}
			}()
			return rl, obs
		}
		for _, failAt := range []int{0, 1} {
			cx.Stats.OracleCases++
			_, obs := replay(failAt)
			eff := ""
			if len(obs.Writes) > 0 {
				// the writer log: every Write call the caller's writer saw
				if failAt == 1 {
					eff = "write-attempt"
				} else {
					eff = "write:" + esc(obs.Out)
				}
				if len(obs.Writes) > 1 {
					eff += fmt.Sprintf(" (+%d more writes)", len(obs.Writes)-1)
				}
			}
			exps = append(exps, expect{cr: cr, what: fmt.Sprintf("%v with writer failing at call %d", o.Kind, failAt), got: obs.Class + " " + eff,
				line: fxLine{kind: "file", noFormat: noFormat, mis: mis, raw: raw, fmtOK: fmtOK, fmtOut: fmtOut, writerOK: failAt == 0, fsOK: true}})
		}
		// the same entry points with the writer types callers really pass (a fast path keyed on the
		// writer's dynamic type must obey the same contract): pre-filled *bytes.Buffer,
		// *strings.Builder, *bufio.Writer, *os.File; plain Render as well as RenderWithFile
		fs = append(fs, writerKinds(cx, cr, ci, o, tmp)...)
		// Save (files only)
		if o.Kind != OpRender {
			continue
		}
		// (existing-long / readonly-long: the old content is much LONGER than the new output, the
		// second one with the write bits cleared — what is left of it afterwards must be nothing)
		// (symlink-rel / symlink-abs: the target is a symbolic link, with a relative resp. absolute
		// link text, to an existing file in another directory; the process's working directory is
		// neither: the new content must be what one reads through the link afterwards)
		targets := []string{"fresh", "existing", "missingdir", "isdir", "existing-long", "readonly-long", "symlink-rel", "symlink-abs"}
		if fi, err := os.Lstat("/dev/full"); err == nil && fi.Mode()&os.ModeCharDevice != 0 {
			targets = append(targets, "devfull") // opens fine, every write fails with ENOSPC
		}
		for ti, target := range targets {
			cx.Stats.OracleCases++
			dir := filepath.Join(tmp, fmt.Sprintf("c%d-%d", ci, ti))
			os.MkdirAll(dir, 0o755)
			path := filepath.Join(dir, "out.go")
			before := ""
			switch target {
			case "existing":
				before = "// previously generated, good content\n"
				os.WriteFile(path, []byte(before), 0o644)
			case "existing-long", "readonly-long":
				before = "// previously generated, good content\n" + strings.Repeat("// a long tail of old declarations\n", 8000)
				os.WriteFile(path, []byte(before), 0o644)
				if target == "readonly-long" {
					os.Chmod(path, 0o444)
				}
			case "symlink-rel", "symlink-abs":
				before = "// previously generated, good content\n"
				os.MkdirAll(filepath.Join(dir, "real"), 0o755)
				os.WriteFile(filepath.Join(dir, "real", "out.go"), []byte(before), 0o644)
				link := filepath.Join("real", "out.go")
				if target == "symlink-abs" {
					link = filepath.Join(dir, "real", "out.go")
				}
				path = filepath.Join(dir, "link.go")
				os.Symlink(link, path)
			case "missingdir":
				path = filepath.Join(dir, "nope", "out.go")
			case "isdir":
				os.Mkdir(path, 0o755)
			case "devfull":
				path = "/dev/full"
			}
			rl, _ := func() (*Real, error) {
				rl := NewReal(&FormChooser{r: NewRng(uint64(ci)*7919 + 1), Fixed: -1})
				defer func() { recover() }()
				for _, op := range cr.Case.Ops {
					if op.IsRender() {
						break
					}
					rl.exec(op)
				}
				return rl, nil
			}()
			var saveErr error
			class := "ok"
			func() {
				defer func() {
					if r := recover(); r != nil {
						class = "panic"
					}
				}()
				saveErr = rl.files[o.F].Save(path)
			}()
			if class != "panic" {
				class = classify(saveErr)
				if saveErr != nil && class == "err:other" {
					class = "err:fs"
				}
			}
			if target == "devfull" {
				// an implementation that REPLACES its target (temp file + rename) instead of writing
				// to it turns the device node into a regular file (the checks run as root): the
				// result is reported below (ok instead of an error); put the node back
				if fi, err := os.Lstat("/dev/full"); err != nil || fi.Mode()&os.ModeCharDevice == 0 {
					os.Remove("/dev/full")
					syscall.Mknod("/dev/full", syscall.S_IFCHR|0o666, 1<<8|7)
					os.Chmod("/dev/full", 0o666)
					cx.note("Save replaced /dev/full by a regular file; the device node was restored")
				}
			}
			var after []byte
			rerr := os.ErrInvalid
			if target != "devfull" { // reading /dev/full never ends
				after, rerr = os.ReadFile(path)
			}
			eff := ""
			switch {
			case (strings.HasPrefix(target, "existing") || strings.HasPrefix(target, "symlink")) && string(after) == before, target == "readonly-long" && string(after) == before:
				eff = ""
			case rerr == nil && target != "isdir":
				eff = "fswrite:" + esc(string(after))
			}
			// (a read-only target can be overwritten by root only)
			fsOK := target == "fresh" || target == "existing" || target == "existing-long" || strings.HasPrefix(target, "symlink") || (target == "readonly-long" && os.Geteuid() == 0)
			exp := expect{cr: cr, what: "Save to " + target, got: class + " " + eff,
				line: fxLine{kind: "save", noFormat: noFormat, mis: mis, raw: raw, fmtOK: fmtOK, fmtOut: fmtOut, writerOK: true, fsOK: fsOK}}
			exps = append(exps, exp)
			os.RemoveAll(dir)
		}
	}
	// ask the model (effect semantics of Lean's fileRenderFrom / fileSaveFrom)
	var in strings.Builder
	for _, e := range exps {
		in.WriteString(e.line.String() + "\n")
	}
	lines, err := runDriverLines(in.String())
	if err != nil || len(lines) != len(exps) {
		cx.note(fmt.Sprintf("fx: driver error %v (%d lines for %d requests)", err, len(lines), len(exps)))
		fs = append(fs, Finding{Property: "C10", Shape: "machinery", What: "effect model could not be evaluated"})
		return fs
	}
	for i, e := range exps {
		// model line: X <result> <effects...>
		parts := strings.Fields(lines[i])
		if len(parts) < 2 || parts[0] != "X" {
			continue
		}
		res := parts[1]
		var wantEff string
		for _, p := range parts[2:] {
			if strings.HasPrefix(p, "write:") {
				if e.line.writerOK {
					wantEff = p
				} else {
					wantEff = "write-attempt"
				}
			}
			if strings.HasPrefix(p, "fswrite:") && e.line.fsOK {
				wantEff = p
			}
		}
		want := res + " " + wantEff
		if want != e.got {
			shape := "effects-differ"
			if strings.Contains(e.got, "write") && !strings.Contains(want, "write") {
				shape = "write-before-success"
			}
			if strings.HasPrefix(e.got, "ok") && !strings.HasPrefix(want, "ok") {
				shape = "error-swallowed"
			}
			fs = append(fs, Finding{Property: "C10", Shape: shape, What: e.what + ": result and effects differ from the effect model", Case: e.cr.Case.Text(), Expected: trunc(want), Observed: trunc(e.got)})
		}
	}
	return fs
}

// writerKinds: for the first render op of the case, the outcome and the bytes received through a
// recording writer (the path the effect model is compared on) are the reference; every concrete
// writer type must end up holding exactly <what it held before> + <those bytes on success,
// nothing on failure>.
// richFailWriter: a failWriter with the optional methods of common writers, all succeeding
type richFailWriter struct {
	failWriter
	flushed, closed, synced int
}

func (w *richFailWriter) Flush() error { w.flushed++; return nil }
func (w *richFailWriter) Close() error { w.closed++; return nil }
func (w *richFailWriter) Sync() error  { w.synced++; return nil }
func (w *richFailWriter) WriteString(x string) (int, error) {
	return w.Write([]byte(x))
}

func writerKinds(cx *CheckCtx, cr *CaseRun, ci int, o Op, tmp string) []Finding {
	var fs []Finding
	prep := func() (rl *Real, ok bool) {
		rl = NewReal(&FormChooser{r: NewRng(uint64(ci)*7919 + 1), Fixed: -1})
		defer func() {
			if r := recover(); r != nil {
				ok = false
			}
		}()
		for _, op := range cr.Case.Ops {
			if op.IsRender() {
				break
			}
			rl.exec(op)
		}
		return rl, true
	}
	into := func(rl *Real, variant string, w io.Writer) (class string) {
		defer func() {
			if r := recover(); r != nil {
				class = "panic"
			}
		}()
		var err error
		switch {
		case o.Kind == OpRender:
			err = rl.files[o.F].Render(w)
		case o.Kind == OpFrag && variant == "withfile":
			err = rl.regs[o.S].RenderWithFile(w, rl.files[o.F])
		case o.Kind == OpFrag:
			err = rl.regs[o.S].Render(w)
		case o.Kind == OpGFrag && variant == "withfile":
			err = rl.files[o.F].Group.RenderWithFile(w, rl.files[o.F2])
		default:
			err = rl.files[o.F].Group.Render(w)
		}
		return classify(err)
	}
	variants := []string{"withfile"}
	if o.Kind != OpRender {
		variants = append(variants, "plain")
	}
	const pre = "PRE|"
	// GoString of the same object: the rendered text on success, a panic (as documented) on failure
	func() {
		rl, ok := prep()
		if !ok {
			return
		}
		ref := &failWriter{}
		class0 := into(rl, "plain", ref)
		rl, ok = prep()
		if !ok || class0 == "panic" {
			return
		}
		cx.Stats.OracleCases++
		got, class := "", "ok"
		func() {
			defer func() {
				if r := recover(); r != nil {
					class = "panic"
				}
			}()
			switch o.Kind {
			case OpRender:
				got = rl.files[o.F].GoString()
			case OpFrag:
				got = rl.regs[o.S].GoString()
			default:
				got = rl.files[o.F].Group.GoString()
			}
		}()
		if (class0 == "ok") != (class == "ok") || (class0 == "ok" && got != ref.buf.String()) {
			fs = append(fs, Finding{Property: "C10", Shape: "gostring-differs", What: fmt.Sprintf("GoString of the %v target: Render gives %s, GoString %s (it must return Render's text or panic when Render fails)", o.Kind, class0, class),
				Case: cr.Case.Text(), Expected: trunc(class0 + " " + ref.buf.String()), Observed: trunc(class + " " + got)})
		}
	}()
	if len(fs) > 0 {
		return fs
	}
	// a failing writer that ALSO offers the optional methods writers commonly have (Flush, Close,
	// Sync, WriteString), all of which succeed: the outcome must be the one of the plain failing
	// writer — an error of Write is not forgotten because something else went well afterwards
	for _, variant := range variants {
		rl, ok := prep()
		if !ok {
			return fs
		}
		plain := &failWriter{failAt: 1}
		classPlain := into(rl, variant, plain)
		rl, ok = prep()
		if !ok {
			return fs
		}
		cx.Stats.OracleCases++
		rich := &richFailWriter{failWriter: failWriter{failAt: 1}}
		classRich := into(rl, variant, rich)
		if classRich != classPlain {
			fs = append(fs, Finding{Property: "C10", Shape: "error-swallowed", What: fmt.Sprintf("%v (%s) into a writer whose first Write fails: outcome %s, but %s when the same writer also has Flush/Close/Sync/WriteString methods that succeed (flushed %d, closed %d, synced %d)", o.Kind, variant, classPlain, classRich, rich.flushed, rich.closed, rich.synced),
				Case: cr.Case.Text(), Expected: classPlain, Observed: classRich})
			return fs
		}
	}
	for _, variant := range variants {
		rl, ok := prep()
		if !ok {
			return fs
		}
		ref := &failWriter{}
		class0 := into(rl, variant, ref)
		want := pre
		if class0 == "ok" {
			want += ref.buf.String()
		}
		for _, kind := range []string{"*bytes.Buffer", "*strings.Builder", "*bufio.Writer", "*os.File"} {
			rl, ok := prep()
			if !ok {
				break
			}
			cx.Stats.OracleCases++
			var class, got string
			switch kind {
			case "*bytes.Buffer":
				b := bytes.NewBufferString(pre)
				class = into(rl, variant, b)
				got = b.String()
			case "*strings.Builder":
				b := &strings.Builder{}
				b.WriteString(pre)
				class = into(rl, variant, b)
				got = b.String()
			case "*bufio.Writer":
				under := bytes.NewBufferString(pre)
				b := bufio.NewWriter(under)
				class = into(rl, variant, b)
				b.Flush()
				got = under.String()
			case "*os.File":
				path := filepath.Join(tmp, fmt.Sprintf("wk-%d.out", ci))
				f, err := os.Create(path)
				if err != nil {
					continue
				}
				f.WriteString(pre)
				class = into(rl, variant, f)
				f.Close()
				b, _ := os.ReadFile(path)
				os.Remove(path)
				got = string(b)
			}
			if class != class0 || got != want {
				shape := "writer-type-changes-effects"
				if class0 != "ok" && got != pre {
					shape = "write-before-success"
				}
				fs = append(fs, Finding{Property: "C10", Shape: shape,
					What: fmt.Sprintf("%v (%s) into a %s holding %q: outcome/content differ from the same call into a recording writer", o.Kind, variant, kind, pre),
					Case: cr.Case.Text(), Expected: trunc(class0 + " " + want), Observed: trunc(class + " " + got)})
				return fs
			}
		}
	}
	return fs
}
