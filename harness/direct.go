package main

// Direct experiments: implementation-side oracles that cannot be written as recipes of the line
// protocol because they depend on Go values the CALLER still holds and changes between renders
// (a map handed to Tag or Dict).  Each trial is a deterministic function of its seed, so a finding
// replays exactly (`harness replay` understands "direct <name> <seed>").  They are tests, counted
// as oracle cases in the evidence; the model is not involved.

import (
	"bytes"
	"fmt"
	"go/ast"
	"go/parser"
	"go/token"
	"reflect"
	"regexp"
	"sort"
	"strconv"
	"strings"

	"github.com/dave/jennifer/jen"
)

type directExp struct {
	name string
	prop string
	run  func(r *Rng) *Finding
}

var directExps []directExp

func runDirect(cx *CheckCtx, n int) []Finding {
	var fs []Finding
	for _, e := range directExps {
		if e.prop != cx.Prop {
			continue
		}
		for i := 0; i < n; i++ {
			seed := cx.Seed*1000003 + uint64(i) + hashStr(e.name)
			f := runDirectTrial(e, seed)
			cx.Stats.OracleCases++
			cx.hist("direct:" + e.name)
			if f != nil {
				fs = append(fs, *f)
			}
		}
	}
	return fs
}

func runDirectTrial(e directExp, seed uint64) (f *Finding) {
	defer func() {
		if p := recover(); p != nil {
			f = &Finding{Property: e.prop, Shape: "direct-panic", What: fmt.Sprintf("%s: panic: %v", e.name, p)}
		}
		if f != nil {
			f.Case = fmt.Sprintf("direct %s %d\n# %s", e.name, seed, strings.ReplaceAll(f.Case, "\n", "\n# "))
		}
	}()
	return e.run(NewRng(seed))
}

func replayDirect(text string) int {
	fields := strings.Fields(strings.SplitN(text, "\n", 2)[0])
	if len(fields) != 3 {
		fmt.Println("malformed direct replay")
		return 2
	}
	seed, _ := strconv.ParseUint(fields[2], 10, 64)
	for _, e := range directExps {
		if e.name == fields[1] {
			f := runDirectTrial(e, seed)
			if f == nil {
				fmt.Println("direct experiment", e.name, "seed", seed, ": property holds")
				return 0
			}
			fmt.Printf("direct experiment %s seed %d: %s\nexpected: %s\nobserved: %s\n%s\n", e.name, seed, f.What, f.Expected, f.Observed, f.Case)
			return 1
		}
	}
	fmt.Println("unknown direct experiment", fields[1])
	return 2
}

// ---------------------------------------------------------------- C17: the caller changes the map between renders

func tagOfOutput(out string) (string, bool, error) {
	fset := token.NewFileSet()
	f, err := parser.ParseFile(fset, "", out, 0)
	if err != nil {
		return "", false, err
	}
	var field *ast.Field
	ast.Inspect(f, func(n ast.Node) bool {
		if st, ok := n.(*ast.StructType); ok && field == nil && len(st.Fields.List) == 1 {
			field = st.Fields.List[0]
		}
		return true
	})
	if field == nil {
		return "", false, fmt.Errorf("no struct field")
	}
	if field.Tag == nil {
		return "", false, nil
	}
	v, err := strconv.Unquote(field.Tag.Value)
	return v, true, err
}

func checkTagAgainst(out string, m map[string]string) string {
	val, has, err := tagOfOutput(out)
	if err != nil {
		return "output does not parse / tag does not unquote: " + err.Error()
	}
	if len(m) == 0 {
		if has {
			return "empty map rendered a tag"
		}
		return ""
	}
	if !has {
		return "tag missing"
	}
	stag := reflect.StructTag(val)
	var keys []string
	for k, v := range m {
		keys = append(keys, k)
		got, ok := stag.Lookup(k)
		if !ok || got != v {
			return fmt.Sprintf("Lookup(%q) = %q, %v; want %q", k, got, ok, v)
		}
	}
	sort.Strings(keys)
	if got := tagKeys(val); !reflect.DeepEqual(got, keys) {
		return fmt.Sprintf("keys in the tag are %q, the map's sorted keys are %q", got, keys)
	}
	return ""
}

func init() {
	directExps = append(directExps, directExp{name: "tag-map-changed-between-renders", prop: "C17", run: func(r *Rng) *Finding {
		keys := []string{"json", "xml", "db", "yaml", "a", "b", "ab", "Z9", "bson", "toml"}
		vals := []string{"", "name", "name,omitempty", "-", "a b", "with \"quotes\"", "back`quote", "new\nline", "\xff\xfe", "x:\"y\""}
		m := map[string]string{}
		for i := 0; i < 1+r.Intn(4); i++ {
			m[pick(r, keys)] = pick(r, vals)
		}
		var script []string
		script = append(script, fmt.Sprintf("m := %q; field := Id(\"F\").Int().Tag(m); f.Type().Id(\"T\").Struct(field)", m))
		field := jen.Id("F").Int().Tag(m)
		f := jen.NewFile("p")
		f.Type().Id("T").Struct(field)
		holder := jen.Type().Id("U").Struct(field) // the same field statement, rendered as a fragment too
		render := func() (string, string) {
			var b bytes.Buffer
			if err := f.Render(&b); err != nil {
				return "", "File.Render: " + err.Error()
			}
			var b2 bytes.Buffer
			if err := holder.Render(&b2); err != nil {
				return "", "Statement.Render: " + err.Error()
			}
			return b.String(), "package p\n" + b2.String()
		}
		for step := 0; step < 2+r.Intn(4); step++ {
			o1, o2 := render()
			script = append(script, "render")
			for _, o := range []string{o1, o2} {
				if strings.HasPrefix(o, "File.Render:") || strings.HasPrefix(o, "Statement.Render:") || o == "" {
					return &Finding{Property: "C17", Shape: "tag-render-error", What: "a struct with a tag did not render: " + o + o2, Case: strings.Join(script, "\n")}
				}
				if why := checkTagAgainst(o, m); why != "" {
					return &Finding{Property: "C17", Shape: "tag-stale-after-map-change", What: fmt.Sprintf("after the caller changed the map handed to Tag, the next render does not reflect the map as it is now: %s", why),
						Case: strings.Join(script, "\n"), Expected: fmt.Sprintf("%q", m), Observed: trunc(o)}
				}
			}
			// mutate the map the tag was built from
			switch r.Intn(5) {
			case 0: // same number of keys, one replaced
				for k := range m {
					delete(m, k)
					script = append(script, fmt.Sprintf("delete(m, %q)", k))
					break
				}
				nk := pick(r, keys)
				m[nk] = pick(r, vals)
				script = append(script, fmt.Sprintf("m[%q] = %q", nk, m[nk]))
			case 1:
				nk := pick(r, keys)
				m[nk] = pick(r, vals)
				script = append(script, fmt.Sprintf("m[%q] = %q", nk, m[nk]))
			case 2:
				for k := range m {
					m[k] = pick(r, vals)
					script = append(script, fmt.Sprintf("m[%q] = %q", k, m[k]))
					break
				}
			case 3:
				for k := range m {
					delete(m, k)
					script = append(script, fmt.Sprintf("delete(m, %q)", k))
					break
				}
			default:
				// no change: a second render of the same map
			}
		}
		return nil
	}})
}

// ---------------------------------------------------------------- C13: one []Code slice handed to several constructs

// The caller's slice `xs` (with nil and Null() items at random positions) is passed with `xs...` to
// two list constructs; both are rendered (in either order, twice).  Each must render exactly like
// the same construct built from its OWN copy of the items, and the caller's slice must still hold
// what the caller put there.
func init() {
	directExps = append(directExps, directExp{name: "slice-shared-by-two-constructs", prop: "C13", run: func(r *Rng) *Finding {
		var apis []string
		for name, kind := range genConstructs {
			if kind == "variadic" {
				if _, ok := pkgFuncs[name]; ok {
					apis = append(apis, name)
				}
			}
		}
		sort.Strings(apis)
		n := 2 + r.Intn(7)
		itemSeed := r.Next()
		mk := func() []jen.Code {
			rr := NewRng(itemSeed) // same choices every time it is called
			var xs []jen.Code
			for i := 0; i < n; i++ {
				switch rr.Intn(5) {
				case 0:
					xs = append(xs, nil)
				case 1:
					xs = append(xs, jen.Null())
				default:
					xs = append(xs, jen.Id(fmt.Sprintf("a%d", i)))
				}
			}
			return xs
		}
		var desc []string
		var kinds []string
		for _, x := range mk() {
			switch {
			case x == nil:
				kinds = append(kinds, "nil")
			default:
				kinds = append(kinds, fmt.Sprintf("%#v", x))
			}
		}
		a1, a2 := pick(r, apis), pick(r, apis)
		desc = append(desc, fmt.Sprintf("xs := []Code{%s}; s1 := Id(\"f\").%s(xs...); s2 := Id(\"g\").%s(xs...)", strings.Join(kinds, ", "), a1, a2))
		call := func(api string, recv *jen.Statement, xs []jen.Code) *jen.Statement {
			m := reflect.ValueOf(recv).MethodByName(api)
			args := make([]reflect.Value, len(xs))
			for i, x := range xs {
				if x == nil {
					args[i] = reflect.Zero(reflect.TypeOf((*jen.Code)(nil)).Elem())
				} else {
					args[i] = reflect.ValueOf(x)
				}
			}
			return m.Call(args)[0].Interface().(*jen.Statement)
		}
		callSlice := func(api string, recv *jen.Statement, xs []jen.Code) *jen.Statement {
			m := reflect.ValueOf(recv).MethodByName(api)
			return m.CallSlice([]reflect.Value{reflect.ValueOf(xs)})[0].Interface().(*jen.Statement)
		}
		raw := func(s *jen.Statement) string {
			f := jen.NewFile("p")
			f.NoFormat = true
			f.Add(s)
			var b bytes.Buffer
			if err := f.Render(&b); err != nil {
				return "error: " + err.Error()
			}
			return b.String()
		}
		// references: each construct from its own fresh items
		want1 := raw(call(a1, jen.Id("f"), mk()))
		want2 := raw(call(a2, jen.Id("g"), mk()))
		xs := mk()
		before := append([]jen.Code{}, xs...)
		s1 := callSlice(a1, jen.Id("f"), xs)
		s2 := callSlice(a2, jen.Id("g"), xs)
		order := []int{1, 2, 1, 2}
		if r.Bool() {
			order = []int{2, 1, 2, 1}
		}
		for _, k := range order {
			got, want, s := raw(s1), want1, "s1"
			if k == 2 {
				got, want, s = raw(s2), want2, "s2"
			}
			desc = append(desc, "render "+s)
			if got != want {
				return &Finding{Property: "C13", Shape: "shared-slice-changes-output", What: fmt.Sprintf("%s built from a slice that another construct also received renders differently from the same construct built from its own items", s),
					Case: strings.Join(desc, "\n"), Expected: trunc(want), Observed: trunc(got)}
			}
		}
		for i := range xs {
			if (xs[i] == nil) != (before[i] == nil) || (xs[i] != nil && fmt.Sprintf("%p", xs[i]) != fmt.Sprintf("%p", before[i])) {
				return &Finding{Property: "C13", Shape: "caller-slice-modified", What: fmt.Sprintf("rendering changed element %d of the caller's slice", i), Case: strings.Join(desc, "\n")}
			}
		}
		return nil
	}})
}

// ---------------------------------------------------------------- C13/C08: two constructs given overlapping slices of one backing array

// The caller builds items in ONE slice with spare capacity (`make([]Code, 0, 8)` + append), passes a
// PREFIX of it to one list construct and the whole (or a longer prefix, extended without
// reallocation) to another — the ordinary way of "these statements, and the same plus two more".
// Every construct keeps the slice it was given as its item list, so construct 1's list has spare
// capacity whose cells belong to construct 2.  Both are rendered, in either order, as fragments
// and/or inside one File, twice: each must render like the construct built from its own copy of
// its items every time, and the backing array must still hold what the caller put there.
func init() {
	for _, prop := range []string{"C13", "C08"} {
		prop := prop
		directExps = append(directExps, directExp{name: "overlapping-slices-with-spare-capacity", prop: prop, run: func(r *Rng) *Finding {
			var apis []string
			for name, kind := range genConstructs {
				if kind == "variadic" {
					if _, ok := pkgFuncs[name]; ok {
						apis = append(apis, name)
					}
				}
			}
			sort.Strings(apis)
			n := 2 + r.Intn(6)
			k := 1 + r.Intn(n-1) // 1 <= k < n
			spare := r.Intn(4)
			itemSeed := r.Next()
			mk := func(capacity int) []jen.Code {
				rr := NewRng(itemSeed)
				xs := make([]jen.Code, 0, capacity)
				for i := 0; i < n; i++ {
					switch rr.Intn(6) {
					case 0:
						xs = append(xs, nil)
					case 1:
						xs = append(xs, jen.Null())
					default:
						xs = append(xs, jen.Id(fmt.Sprintf("a%d", i)))
					}
				}
				return xs
			}
			a1, a2 := pick(r, apis), pick(r, apis)
			if r.Chance(60) {
				a1 = pick(r, []string{"Block", "Defs", "Struct", "Interface", "Values", "Call", "Params", "List", "Index", "Case"})
			}
			callSlice := func(api string, recv *jen.Statement, xs []jen.Code) *jen.Statement {
				m := reflect.ValueOf(recv).MethodByName(api)
				return m.CallSlice([]reflect.Value{reflect.ValueOf(xs)})[0].Interface().(*jen.Statement)
			}
			raw := func(ss ...*jen.Statement) string {
				f := jen.NewFile("p")
				f.NoFormat = true
				for _, s := range ss {
					f.Add(s)
				}
				var b bytes.Buffer
				if err := f.Render(&b); err != nil {
					return "error: " + err.Error()
				}
				return b.String()
			}
			own := func(xs []jen.Code) []jen.Code { return append(make([]jen.Code, 0, len(xs)), xs...) }
			want1 := raw(callSlice(a1, jen.Id("f"), own(mk(n)[:k])))
			want2 := raw(callSlice(a2, jen.Id("g"), own(mk(n))))
			wantBoth := raw(callSlice(a1, jen.Id("f"), own(mk(n)[:k])), callSlice(a2, jen.Id("g"), own(mk(n))))
			xs := mk(n + spare)
			before := append([]jen.Code{}, xs...)
			s1 := callSlice(a1, jen.Id("f"), xs[:k])
			s2 := callSlice(a2, jen.Id("g"), xs)
			desc := []string{fmt.Sprintf("xs := make([]Code, 0, %d) + %d items (seed %d); s1 := Id(\"f\").%s(xs[:%d]...); s2 := Id(\"g\").%s(xs...)", n+spare, n, itemSeed, a1, k, a2)}
			orders := [][]int{{1, 2, 1, 2}, {2, 1, 2, 1}, {3, 3}, {2, 1, 3}, {1, 3, 2}}
			for _, o := range orders[r.Intn(len(orders))] {
				var got, want, what string
				switch o {
				case 1:
					got, want, what = raw(s1), want1, "s1"
				case 2:
					got, want, what = raw(s2), want2, "s2"
				default:
					got, want, what = raw(s1, s2), wantBoth, "File{s1, s2}"
				}
				desc = append(desc, "render "+what)
				if got != want {
					return &Finding{Property: prop, Shape: "overlapping-slices-change-output", What: fmt.Sprintf("%s renders differently from the same construct(s) built from their own copies of the items (the constructs were given overlapping slices of one backing array)", what),
						Case: strings.Join(desc, "\n"), Expected: trunc(want), Observed: trunc(got)}
				}
			}
			for i := range before {
				if (xs[i] == nil) != (before[i] == nil) || (xs[i] != nil && fmt.Sprintf("%p", xs[i]) != fmt.Sprintf("%p", before[i])) {
					return &Finding{Property: prop, Shape: "caller-slice-modified", What: fmt.Sprintf("rendering changed element %d of the caller's backing array", i), Case: strings.Join(desc, "\n")}
				}
			}
			return nil
		}})
	}
}

// ---------------------------------------------------------------- C04: a reference beside an item that renders as nothing

// A Dict pair (or a list) holds a qualified identifier beside an item that is NOT null but renders no
// text (Empty(), Id(""), Line()).  Such source is rarely valid Go, so the File is rendered with
// NoFormat and the raw text is examined: a path is imported exactly when its qualifier occurs in the
// body.
func init() {
	directExps = append(directExps, directExp{name: "reference-beside-empty-rendering-item", prop: "C04", run: func(r *Rng) *Finding {
		paths := []string{"go/token", "a.com/x/keys", "b.org/lib/vals", "c.io/third"}
		f := jen.NewFile("p")
		f.NoFormat = true
		if r.Chance(30) {
			f.PackagePrefix = "pk"
		}
		empty := func() jen.Code {
			switch r.Intn(3) {
			case 0:
				return jen.Empty()
			case 1:
				return jen.Id("")
			}
			return jen.Line()
		}
		d := jen.Dict{}
		var desc []string
		used := map[string]bool{}
		for i := 0; i < 1+r.Intn(3); i++ {
			p := paths[r.Intn(len(paths))]
			sym := fmt.Sprintf("S%d", i)
			used[p] = true
			switch r.Intn(3) {
			case 0:
				d[jen.Qual(p, sym)] = empty()
				desc = append(desc, fmt.Sprintf("Qual(%q, %q): <empty-rendering>", p, sym))
			case 1:
				d[jen.Id(fmt.Sprintf("k%d", i)).Add(empty())] = jen.Qual(p, sym)
				desc = append(desc, fmt.Sprintf("k%d <empty-rendering>: Qual(%q, %q)", i, p, sym))
			default:
				d[empty()] = jen.Qual(p, sym)
				desc = append(desc, fmt.Sprintf("<empty-rendering>: Qual(%q, %q)", p, sym))
			}
		}
		f.Var().Id("m").Op("=").Map(jen.Any()).Any().Values(d)
		var b bytes.Buffer
		if err := f.Render(&b); err != nil {
			return nil // not the subject here
		}
		out := b.String()
		body := out
		if i := strings.Index(out, "var m"); i >= 0 {
			body = out[i:]
		}
		for _, p := range paths {
			imported := strings.Contains(out[:len(out)-len(body)], strconv.Quote(p))
			referenced := false
			for i := 0; i < 4; i++ {
				if used[p] && regexp.MustCompile(`[\pL_][\pL\pN_]*\.S`+fmt.Sprint(i)+`\b`).MatchString(body) {
					// (which path a symbol belongs to is checked through the import line below)
					referenced = referenced || strings.Contains(strings.Join(desc, "\n"), fmt.Sprintf("Qual(%q, \"S%d\")", p, i))
				}
			}
			if imported && !referenced {
				return &Finding{Property: "C04", Shape: "unused-import", What: fmt.Sprintf("path %q is imported but no qualified identifier of it is in the output", p), Case: strings.Join(desc, "\n"), Observed: trunc(out)}
			}
			if !imported && referenced {
				return &Finding{Property: "C04", Shape: "missing-import", What: fmt.Sprintf("a qualified identifier of %q is in the output but the path is not imported", p), Case: strings.Join(desc, "\n"), Observed: trunc(out)}
			}
		}
		return nil
	}})
}

// ---------------------------------------------------------------- C09: one hint map handed to several Files

// The caller passes ONE map[string]string to ImportNames of two Files (the usual way to use a
// gennames table), gives one of them further names, and renders the other: it must render exactly
// like the same File built alone from its own copy of the map; and the caller's map must still hold
// what the caller put there (changing it afterwards must not reach a File either).
func init() {
	directExps = append(directExps, directExp{name: "hint-map-shared-by-two-files", prop: "C09", run: func(r *Rng) *Finding {
		paths := []string{"gopkg.in/yaml.v2", "github.com/google/uuid", "a.com/x/codec", "b.org/codec", "example.com/db/driver", "c.io/util"}
		names := []string{"yaml", "uuid", "codec", "guid", "yamlv2", "driver", "util", "u", "x1"}
		m := map[string]string{}
		for _, p := range paths {
			if r.Chance(70) {
				m[p] = pick(r, names)
			}
		}
		extra := map[string]string{}
		for _, p := range paths {
			if r.Chance(50) {
				extra[p] = pick(r, names)
			}
		}
		var refs []string
		for _, p := range paths {
			if r.Chance(60) {
				refs = append(refs, p)
			}
		}
		if len(refs) == 0 {
			refs = paths[:2]
		}
		copyOf := func(x map[string]string) map[string]string {
			c := map[string]string{}
			for k, v := range x {
				c[k] = v
			}
			return c
		}
		build := func(f *jen.File) {
			for i, p := range refs {
				f.Var().Id(fmt.Sprintf("v%d", i)).Op("=").Qual(p, "X")
			}
		}
		out := func(f *jen.File) string {
			f.NoFormat = true
			var b bytes.Buffer
			if err := f.Render(&b); err != nil {
				return "error: " + err.Error()
			}
			return b.String()
		}
		// reference: B alone, from its own copy
		alone := jen.NewFile("b")
		alone.ImportNames(copyOf(m))
		build(alone)
		want := out(alone)
		// the history: A and B share the caller's map; A gets more names; (the caller changes the map;) B renders
		orig := copyOf(m)
		fa, fb := jen.NewFile("a"), jen.NewFile("b")
		script := []string{fmt.Sprintf("m := %v; fa.ImportNames(m); fb.ImportNames(m); fa.ImportNames(%v)", m, extra)}
		if r.Bool() {
			fa.ImportNames(m)
			fb.ImportNames(m)
		} else {
			fb.ImportNames(m)
			fa.ImportNames(m)
		}
		fa.ImportNames(extra)
		build(fa)
		if r.Bool() {
			out(fa)
			script = append(script, "fa rendered")
		}
		if !reflect.DeepEqual(m, orig) {
			return &Finding{Property: "C09", Shape: "caller-map-modified", What: "ImportNames changed the map the caller passed in", Case: strings.Join(script, "\n"), Expected: fmt.Sprint(orig), Observed: fmt.Sprint(m)}
		}
		callerChanges := r.Bool()
		if callerChanges {
			for k := range m {
				m[k] = "changedByCaller"
			}
			script = append(script, "caller overwrites every value of m")
		}
		build(fb)
		got := out(fb)
		script = append(script, "fb built and rendered")
		if got != want {
			return &Finding{Property: "C09", Shape: "output-depends-on-other-files", What: "a File that received the caller's hint map renders differently from the same File built alone from its own copy of the map (another File got the same map and further names" + map[bool]string{true: "; the caller changed the map afterwards", false: ""}[callerChanges] + ")",
				Case: strings.Join(script, "\n"), Expected: trunc(want), Observed: trunc(got)}
		}
		return nil
	}})
}
