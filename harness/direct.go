package main

// Direct experiments: implementation-side oracles that cannot be written as recipes of the line
// protocol because they depend on Go values the CALLER still holds and changes between renders
// (a map handed to Tag or Dict).  Each trial is a deterministic function of its seed, so a finding
// replays exactly (`harness replay` understands "direct <name> <seed>").  They are tests, counted
// as oracle cases in the evidence; the model is not involved.

import (
	"bytes"
	"fmt"
	"go/ast"
	"go/parser"
	"go/token"
	"reflect"
	"sort"
	"strconv"
	"strings"

	"github.com/dave/jennifer/jen"
)

type directExp struct {
	name string
	prop string
	run  func(r *Rng) *Finding
}

var directExps []directExp

func runDirect(cx *CheckCtx, n int) []Finding {
	var fs []Finding
	for _, e := range directExps {
		if e.prop != cx.Prop {
			continue
		}
		for i := 0; i < n; i++ {
			seed := cx.Seed*1000003 + uint64(i) + hashStr(e.name)
			f := runDirectTrial(e, seed)
			cx.Stats.OracleCases++
			cx.hist("direct:" + e.name)
			if f != nil {
				fs = append(fs, *f)
			}
		}
	}
	return fs
}

func runDirectTrial(e directExp, seed uint64) (f *Finding) {
	defer func() {
		if p := recover(); p != nil {
			f = &Finding{Property: e.prop, Shape: "direct-panic", What: fmt.Sprintf("%s: panic: %v", e.name, p)}
		}
		if f != nil {
			f.Case = fmt.Sprintf("direct %s %d\n# %s", e.name, seed, strings.ReplaceAll(f.Case, "\n", "\n# "))
		}
	}()
	return e.run(NewRng(seed))
}

func replayDirect(text string) int {
	fields := strings.Fields(strings.SplitN(text, "\n", 2)[0])
	if len(fields) != 3 {
		fmt.Println("malformed direct replay")
		return 2
	}
	seed, _ := strconv.ParseUint(fields[2], 10, 64)
	for _, e := range directExps {
		if e.name == fields[1] {
			f := runDirectTrial(e, seed)
			if f == nil {
				fmt.Println("direct experiment", e.name, "seed", seed, ": property holds")
				return 0
			}
			fmt.Printf("direct experiment %s seed %d: %s\nexpected: %s\nobserved: %s\n%s\n", e.name, seed, f.What, f.Expected, f.Observed, f.Case)
			return 1
		}
	}
	fmt.Println("unknown direct experiment", fields[1])
	return 2
}

// ---------------------------------------------------------------- C17: the caller changes the map between renders

func tagOfOutput(out string) (string, bool, error) {
	fset := token.NewFileSet()
	f, err := parser.ParseFile(fset, "", out, 0)
	if err != nil {
		return "", false, err
	}
	var field *ast.Field
	ast.Inspect(f, func(n ast.Node) bool {
		if st, ok := n.(*ast.StructType); ok && field == nil && len(st.Fields.List) == 1 {
			field = st.Fields.List[0]
		}
		return true
	})
	if field == nil {
		return "", false, fmt.Errorf("no struct field")
	}
	if field.Tag == nil {
		return "", false, nil
	}
	v, err := strconv.Unquote(field.Tag.Value)
	return v, true, err
}

func checkTagAgainst(out string, m map[string]string) string {
	val, has, err := tagOfOutput(out)
	if err != nil {
		return "output does not parse / tag does not unquote: " + err.Error()
	}
	if len(m) == 0 {
		if has {
			return "empty map rendered a tag"
		}
		return ""
	}
	if !has {
		return "tag missing"
	}
	stag := reflect.StructTag(val)
	var keys []string
	for k, v := range m {
		keys = append(keys, k)
		got, ok := stag.Lookup(k)
		if !ok || got != v {
			return fmt.Sprintf("Lookup(%q) = %q, %v; want %q", k, got, ok, v)
		}
	}
	sort.Strings(keys)
	if got := tagKeys(val); !reflect.DeepEqual(got, keys) {
		return fmt.Sprintf("keys in the tag are %q, the map's sorted keys are %q", got, keys)
	}
	return ""
}

func init() {
	directExps = append(directExps, directExp{name: "tag-map-changed-between-renders", prop: "C17", run: func(r *Rng) *Finding {
		keys := []string{"json", "xml", "db", "yaml", "a", "b", "ab", "Z9", "bson", "toml"}
		vals := []string{"", "name", "name,omitempty", "-", "a b", "with \"quotes\"", "back`quote", "new\nline", "\xff\xfe", "x:\"y\""}
		m := map[string]string{}
		for i := 0; i < 1+r.Intn(4); i++ {
			m[pick(r, keys)] = pick(r, vals)
		}
		var script []string
		script = append(script, fmt.Sprintf("m := %q; field := Id(\"F\").Int().Tag(m); f.Type().Id(\"T\").Struct(field)", m))
		field := jen.Id("F").Int().Tag(m)
		f := jen.NewFile("p")
		f.Type().Id("T").Struct(field)
		holder := jen.Type().Id("U").Struct(field) // the same field statement, rendered as a fragment too
		render := func() (string, string) {
			var b bytes.Buffer
			if err := f.Render(&b); err != nil {
				return "", "File.Render: " + err.Error()
			}
			var b2 bytes.Buffer
			if err := holder.Render(&b2); err != nil {
				return "", "Statement.Render: " + err.Error()
			}
			return b.String(), "package p\n" + b2.String()
		}
		for step := 0; step < 2+r.Intn(4); step++ {
			o1, o2 := render()
			script = append(script, "render")
			for _, o := range []string{o1, o2} {
				if strings.HasPrefix(o, "File.Render:") || strings.HasPrefix(o, "Statement.Render:") || o == "" {
					return &Finding{Property: "C17", Shape: "tag-render-error", What: "a struct with a tag did not render: " + o + o2, Case: strings.Join(script, "\n")}
				}
				if why := checkTagAgainst(o, m); why != "" {
					return &Finding{Property: "C17", Shape: "tag-stale-after-map-change", What: fmt.Sprintf("after the caller changed the map handed to Tag, the next render does not reflect the map as it is now: %s", why),
						Case: strings.Join(script, "\n"), Expected: fmt.Sprintf("%q", m), Observed: trunc(o)}
				}
			}
			// mutate the map the tag was built from
			switch r.Intn(5) {
			case 0: // same number of keys, one replaced
				for k := range m {
					delete(m, k)
					script = append(script, fmt.Sprintf("delete(m, %q)", k))
					break
				}
				nk := pick(r, keys)
				m[nk] = pick(r, vals)
				script = append(script, fmt.Sprintf("m[%q] = %q", nk, m[nk]))
			case 1:
				nk := pick(r, keys)
				m[nk] = pick(r, vals)
				script = append(script, fmt.Sprintf("m[%q] = %q", nk, m[nk]))
			case 2:
				for k := range m {
					m[k] = pick(r, vals)
					script = append(script, fmt.Sprintf("m[%q] = %q", k, m[k]))
					break
				}
			case 3:
				for k := range m {
					delete(m, k)
					script = append(script, fmt.Sprintf("delete(m, %q)", k))
					break
				}
			default:
				// no change: a second render of the same map
			}
		}
		return nil
	}})
}
