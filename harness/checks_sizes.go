package main

// Size sweep (after the eighth round of seeded changes): every size dimension of a Go program at
// the powers of two and their neighbours — list arities, clause counts, nesting depths, literal
// lengths.  A renderer that switches strategy at a threshold (wrapping, chunking, fast paths,
// fixed-size tables) is exercised on both sides of it.  The programs are generated as Go SOURCE and
// go through the same pipeline as the files of GOROOT/src (source -> go/ast -> DSL -> render ->
// re-parse -> tree comparison).

import (
	"fmt"
	"strings"
)

func sweepSizes(thorough bool) []int {
	if thorough {
		return []int{1, 2, 7, 8, 9, 15, 16, 17, 31, 32, 33, 63, 64, 65, 127, 128, 129, 255, 256, 257, 511, 512, 513, 1023, 1024, 1025, 2049}
	}
	return []int{2, 8, 9, 16, 17, 64, 65, 257, 513, 1025}
}

func seq(n int, sep string, f func(i int) string) string {
	var b strings.Builder
	for i := 0; i < n; i++ {
		if i > 0 {
			b.WriteString(sep)
		}
		b.WriteString(f(i))
	}
	return b.String()
}

func nest(n int, open, inner, close string) string {
	return strings.Repeat(open, n) + inner + strings.Repeat(close, n)
}

// shape name -> source of a file with that shape at size n ("" = not applicable at this size)
var sizeShapes = []struct {
	name string
	max  int
	gen  func(n int) string
}{
	{"case-list", 4096, func(n int) string {
		return "func f(x int) {\n\tswitch x {\n\tcase " + seq(n, ", ", func(i int) string { return fmt.Sprint(i) }) + ":\n\t\tx++\n\tdefault:\n\t}\n}\n"
	}},
	{"case-clauses", 4096, func(n int) string {
		return "func f(x int) {\n\tswitch x {\n" + seq(n, "", func(i int) string { return fmt.Sprintf("\tcase %d:\n\t\tx = %d\n", i, i) }) + "\t}\n}\n"
	}},
	{"call-args", 4096, func(n int) string {
		return "var v = f(" + seq(n, ", ", func(i int) string { return fmt.Sprintf("a%d", i) }) + ")\n"
	}},
	{"composite-values", 4096, func(n int) string {
		return "var v = []int{" + seq(n, ", ", func(i int) string { return fmt.Sprint(i) }) + "}\n"
	}},
	{"composite-keyed", 4096, func(n int) string {
		return "var v = map[string]int{" + seq(n, ", ", func(i int) string { return fmt.Sprintf("%q: %d", fmt.Sprintf("k%04d", i), i) }) + "}\n"
	}},
	{"params", 4096, func(n int) string {
		return "func f(" + seq(n, ", ", func(i int) string { return fmt.Sprintf("p%d int", i) }) + ") (" + seq(n, ", ", func(i int) string { return fmt.Sprintf("r%d int", i) }) + ") {\n\treturn\n}\n"
	}},
	{"var-specs", 4096, func(n int) string {
		return "var (\n" + seq(n, "", func(i int) string { return fmt.Sprintf("\tv%d = %d\n", i, i) }) + ")\n\nconst (\n" + seq(n, "", func(i int) string { return fmt.Sprintf("\tc%d = %d\n", i, i) }) + ")\n"
	}},
	{"struct-fields", 4096, func(n int) string {
		return "type T struct {\n" + seq(n, "", func(i int) string { return fmt.Sprintf("\tF%d int\n", i) }) + "}\n"
	}},
	{"interface-methods", 4096, func(n int) string {
		return "type I interface {\n" + seq(n, "", func(i int) string { return fmt.Sprintf("\tM%d()\n", i) }) + "}\n"
	}},
	{"block-statements", 4096, func(n int) string {
		return "func f() {\n\tx := 0\n" + seq(n, "", func(i int) string { return fmt.Sprintf("\tx += %d\n", i) }) + "}\n"
	}},
	{"declarations", 4096, func(n int) string {
		return seq(n, "\n", func(i int) string { return fmt.Sprintf("func f%d() {}\n", i) })
	}},
	{"assign-lists", 4096, func(n int) string {
		return "func f() {\n\t" + seq(n, ", ", func(i int) string { return fmt.Sprintf("a%d", i) }) + " := " + seq(n, ", ", func(i int) string { return fmt.Sprint(i) }) + "\n\treturn " + seq(n, ", ", func(i int) string { return fmt.Sprintf("a%d", i) }) + "\n}\n"
	}},
	{"binary-chain", 4096, func(n int) string {
		return "var v = " + seq(n+1, " + ", func(i int) string { return fmt.Sprintf("a%d", i) }) + "\n"
	}},
	{"selector-chain", 4096, func(n int) string {
		return "var v = x" + seq(n, "", func(i int) string { return fmt.Sprintf(".F%d", i) }) + "\n"
	}},
	{"else-if-chain", 600, func(n int) string {
		return "func f(x int) {\n\tif x == 0 {\n" + seq(n, "", func(i int) string { return fmt.Sprintf("\t} else if x == %d {\n", i+1) }) + "\t} else {\n\t}\n}\n"
	}},
	{"nested-calls", 600, func(n int) string { return "var v = " + nest(n, "f(", "x", ")") + "\n" }},
	{"nested-blocks", 600, func(n int) string { return "func f() {\n" + nest(n, "{\n", "x()\n", "}\n") + "}\n" }},
	{"nested-index", 600, func(n int) string { return "var v = " + nest(n, "a[", "0", "]") + "\n" }},
	{"nested-func-lits", 300, func(n int) string { return "var v = " + nest(n, "func() {\n", "x()\n", "}\n") + "\n" }},
	{"nested-pointer-types", 600, func(n int) string { return "var v " + strings.Repeat("*", n) + "int\n" }},
	{"type-params", 2049, func(n int) string {
		return "func f[" + seq(n, ", ", func(i int) string { return fmt.Sprintf("T%d any", i) }) + "]() {}\n\ntype U interface {\n\t" + seq(n, " | ", func(i int) string { return fmt.Sprintf("~[%d]int", i+1) }) + "\n}\n"
	}},
	{"long-literals", 4096, func(n int) string {
		return fmt.Sprintf("var s = %q\n\nvar n = 1%s\n\nvar %s = 0\n", strings.Repeat("0123456789abcdef", n), strings.Repeat("0", n), "x"+strings.Repeat("y", n))
	}},
	{"imports", 1025, func(n int) string {
		return "import (\n" + seq(n, "", func(i int) string { return fmt.Sprintf("\tp%d \"a.com/m%d/p%d\"\n", i, i, i) }) + ")\n\nvar v = []int{" + seq(n, ", ", func(i int) string { return fmt.Sprintf("p%d.X", i) }) + "}\n"
	}},
}

func sizeSweepCases(cx *CheckCtx) []*Case {
	var cs []*Case
	skipped := map[string]int{}
	n := 0
	for _, sh := range sizeShapes {
		for _, size := range sweepSizes(cx.Tier == "thorough" || cx.Escalate > 1) {
			if size > sh.max {
				continue
			}
			body := sh.gen(size)
			src := "package p\n\n" + body
			if sh.name == "imports" {
				src = "package p\n\n" + body
			}
			id := fmt.Sprintf("C01-size-%s-%d", sh.name, size)
			c, _, problems := ConvertFile(id+".go", []byte(src), id)
			if c == nil || len(problems) > 0 {
				for _, pr := range problems {
					k := pr
					if len(k) > 70 {
						k = k[:70]
					}
					skipped[sh.name+": "+k]++
				}
				continue
			}
			c01Sources[id] = []byte(src)
			cs = append(cs, c)
			n++
			cx.hist("size-sweep:" + sh.name)
		}
	}
	cx.Extra["size_sweep_files"] = n
	if len(skipped) > 0 {
		cx.Extra["size_sweep_not_expressible"] = skipped
	}
	return cs
}
