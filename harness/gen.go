package main

// Generators of recipes (DESIGN §2.4).  Every choice comes from one splitmix64 stream.

import (
	"fmt"
	"math"
	"sort"
	"strconv"
	"strings"
)

// ---------------------------------------------------------------- API tables (from funcs_gen.go)

var (
	tokNoArg      []string // keyword / identifier token methods
	grpVariadic   []string
	grpFixed      map[string]int
	grpFixedNames []string
)

func initAPI() {
	grpFixed = map[string]int{}
	for n, takesArg := range genTokens {
		if !takesArg {
			tokNoArg = append(tokNoArg, n)
		}
	}
	for n, ar := range genConstructs {
		switch {
		case ar == "variadic":
			grpVariadic = append(grpVariadic, n)
		case strings.HasPrefix(ar, "fixed"):
			k, _ := strconv.Atoi(ar[5:])
			grpFixed[n] = k
			grpFixedNames = append(grpFixedNames, n)
		}
	}
	sort.Strings(tokNoArg)
	sort.Strings(grpVariadic)
	sort.Strings(grpFixedNames)
}

func hasFunc(api string) bool { return genConstructs[api+"Func"] == "callback" }

// ---------------------------------------------------------------- literal helpers

func mkLit(v interface{}) Lit {
	switch x := v.(type) {
	case bool:
		return Lit{Type: "bool", V: []string{b01(x)}, Val: v}
	case string:
		return Lit{Type: "str", V: []string{x}, Val: v}
	case int:
		return Lit{Type: "int", V: []string{strconv.Itoa(x)}, Val: v}
	case int8:
		return Lit{Type: "int8", V: []string{strconv.FormatInt(int64(x), 10)}, Val: v}
	case int16:
		return Lit{Type: "int16", V: []string{strconv.FormatInt(int64(x), 10)}, Val: v}
	case int32:
		return Lit{Type: "int32", V: []string{strconv.FormatInt(int64(x), 10)}, Val: v}
	case int64:
		return Lit{Type: "int64", V: []string{strconv.FormatInt(x, 10)}, Val: v}
	case uint:
		return Lit{Type: "uint", V: []string{strconv.FormatUint(uint64(x), 10)}, Val: v}
	case uint8:
		return Lit{Type: "uint8", V: []string{strconv.FormatUint(uint64(x), 10)}, Val: v}
	case uint16:
		return Lit{Type: "uint16", V: []string{strconv.FormatUint(uint64(x), 10)}, Val: v}
	case uint32:
		return Lit{Type: "uint32", V: []string{strconv.FormatUint(uint64(x), 10)}, Val: v}
	case uint64:
		return Lit{Type: "uint64", V: []string{strconv.FormatUint(x, 10)}, Val: v}
	case uintptr:
		return Lit{Type: "uintptr", V: []string{strconv.FormatUint(uint64(x), 10)}, Val: v}
	case float64:
		// the float text is the delegated strconv behaviour, computed independently of jennifer
		return Lit{Type: "f64", V: []string{strconv.FormatFloat(x, 'g', -1, 64)}, Val: v}
	case float32:
		return Lit{Type: "f32", V: []string{strconv.FormatFloat(float64(x), 'g', -1, 32)}, Val: v}
	case complex128:
		return Lit{Type: "c128", V: []string{strconv.FormatFloat(real(x), 'g', -1, 64), strconv.FormatFloat(imag(x), 'g', -1, 64)}, Val: v}
	case complex64:
		return Lit{Type: "c64", V: []string{strconv.FormatFloat(float64(real(x)), 'g', -1, 32), strconv.FormatFloat(float64(imag(x)), 'g', -1, 32)}, Val: v}
	}
	panic(fmt.Sprintf("mkLit: %T", v))
}

func mkRune(r rune) Lit { return Lit{Type: "rune", V: []string{strconv.Itoa(int(r))}, Val: r} }
func mkByte(b byte) Lit { return Lit{Type: "byte", V: []string{strconv.Itoa(int(b))}, Val: b} }

func id(s string) SItem   { return Tok{Api: "Id", HasArg: true, Arg: s} }
func op(s string) SItem   { return Tok{Api: "Op", HasArg: true, Arg: s} }
func kw(api string) SItem { return Tok{Api: api} }
func st(items ...SItem) *Stmt { return &Stmt{Items: items} }

// ---------------------------------------------------------------- byte strings (G-bytes)

var nastyPieces = []string{
	"\"", "`", "\\", "\n", "\x00", "\ufeff", "\x7f", "\t", "\r", "\xff", "\xc0\xaf", "\xed\xa0\x80", "*/", "/*", "//",
	"'", "\u2028", "é", "世界", "\U0001F600", "K", "İ", "\xf4\x90\x80\x80", "\xe2\x82", "}", "{", ";", " ", "%", "$",
	"\a", "\b", "\f", "\v", "\x1b", "\u00a0", "\u200b", "\ufffd", "\xef\xbf\xbd", "\\n", "\\x", "\"+\"", "` + `",
}

func genBytes(r *Rng, maxLen int) string {
	n := r.Intn(maxLen + 1)
	var b strings.Builder
	for b.Len() < n {
		switch r.Intn(6) {
		case 0:
			b.WriteString(pick(r, nastyPieces))
		case 1:
			b.WriteByte(byte(r.Intn(256)))
		case 2:
			b.WriteString(string(rune(r.Intn(0x110000))))
		default:
			b.WriteByte(byte(0x20 + r.Intn(0x5f)))
		}
	}
	return b.String()
}

func genIdent(r *Rng) string {
	first := "abcdefghijklmnopqrstuvwxyzABCDEFGHIJKLMNOPQRSTUVWXYZ_"
	rest := first + "0123456789"
	n := 1 + r.Intn(6)
	b := []byte{first[r.Intn(len(first))]}
	for i := 1; i < n; i++ {
		b = append(b, rest[r.Intn(len(rest))])
	}
	s := string(b)
	if s == "_" {
		return "x_"
	}
	if len(s) >= 3 && s[0] == 'Q' && s[len(s)-1] == 'z' {
		return s + "x" // Q<i>z is reserved: the oracles recognise referenced symbols by it
	}
	return s
}

var goKeywords = []string{"break", "default", "func", "interface", "select", "case", "defer", "go", "map", "struct", "chan", "else", "goto", "package", "switch", "const", "fallthrough", "if", "range", "type", "continue", "for", "import", "return", "var"}

var simpleNames = []string{"a", "b", "c", "x", "y", "z", "foo", "bar", "Baz", "T", "v1", "n", "i", "ok", "s", "buf"}

func genName(r *Rng) string {
	if r.Chance(80) {
		return pick(r, simpleNames)
	}
	return genIdent(r)
}

// ---------------------------------------------------------------- import paths (G-paths)

type PathPool struct {
	Paths []string
}

var stdSome = []string{"fmt", "os", "io", "strings", "math/rand", "crypto/rand", "text/template", "html/template", "net/http", "unsafe", "encoding/json", "go/ast", "sort", "bytes", "C"}
var baseNames = []string{"d", "d", "d", "util", "rand", "x", "v2", "pkg", "go-lib", "My.Pkg", "123", "9lives", "type", "any", "string", "err", "len", "init", "main", "_", "a_b", "ÄÖ", "Kelvin", "İstanbul", "d1", "d2", "C", "c", "fmt", "os"}
var hosts = []string{"a.com", "b.com", "c.org/x", "github.com/u", "example.com/very/long/path", "", "gopkg.in", "9fans.net/go", "Azure.com/sdk", "B2.io", "-dash.org"}

// path elements over the Unicode categories that matter for identifiers: letters of every kind
// (Lu Ll Lt Lm Lo), decimal digits of other scripts (Nd — legal in identifiers), OTHER numbers
// (No: superscripts, subscripts, fractions, circled — not legal), letter numbers (Nl: Roman
// numerals — not legal), marks, connector punctuation, symbols, format characters
var unicodeElems = []string{"h₂o", "m²", "x½", "Ⅳ", "ⅳx", "①a", "a①", "٣abc", "abc٣", "४२", "проект", "世界", "é", "e\u0301", "ｆｕｌｌ", "ǅx", "ʰa", "ß", "İ", "K",
	"a‿b", "a\u200db", "x😀", "㊿", "〇", "ᛮ", "½", "²", "x₂y³", "ℕ", "µ", "ª", "a\u00adb", "𝟘x", "x𝟡"}

func genPath(r *Rng) string {
	if r.Chance(4) {
		return pick(r, hosts) + "/" + strings.NewReplacer("\\u0301", "\u0301", "\\u200d", "\u200d", "\\u00ad", "\u00ad").Replace(pick(r, unicodeElems))
	}
	switch r.Intn(12) {
	case 0, 1, 2:
		return pick(r, stdSome)
	case 3:
		return pick(r, hosts) + "/" + pick(r, goKeywords)
	case 4:
		return pick(r, hosts) + "/" + pick(r, universeNames)
	case 5:
		return genBytes(r, 8)
	case 6:
		return pick(r, hosts) + "/" + pick(r, baseNames) + "/"
	case 7:
		return pick(r, baseNames)
	default:
		return pick(r, hosts) + "/" + pick(r, baseNames)
	}
}

var universeNames = []string{"any", "bool", "byte", "comparable", "complex64", "complex128", "error", "float32", "float64", "int", "int8", "int16", "int32", "int64", "rune", "string", "uint", "uint8", "uint16", "uint32", "uint64", "uintptr", "true", "false", "iota", "nil", "append", "cap", "clear", "close", "complex", "copy", "delete", "imag", "len", "make", "max", "min", "new", "panic", "print", "println", "real", "recover"}

func genPool(r *Rng, n int) *PathPool {
	p := &PathPool{}
	seen := map[string]bool{}
	for len(p.Paths) < n {
		s := genPath(r)
		if !seen[s] {
			seen[s] = true
			p.Paths = append(p.Paths, s)
		}
	}
	return p
}

// hint names inside the guard HintsOk (ASCII identifiers other than "_"), plus "." for aliases
func genHintName(r *Rng) string {
	switch r.Intn(8) {
	case 0:
		return pick(r, goKeywords)
	case 1:
		return pick(r, universeNames)
	case 2:
		return pick(r, []string{"d", "d1", "d2", "pkg_d", "pkg", "x", "rand", "fmt", "C", "err"})
	default:
		n := genIdent(r)
		if qNameRe.MatchString(n) {
			n += "x" // Q<i>z is the oracle's naming convention for referenced symbols
		}
		return n
	}
}

// ---------------------------------------------------------------- tree generators

type TreeGen struct {
	r        *Rng
	pool     *PathPool
	budget   int  // remaining nodes
	maxArity int
	wild     bool // arbitrary compositions
	voids    bool // sprinkle nil / Null / empty statements
	dicts    bool
	comments bool
	multiDictQual bool // allow qualified identifiers inside multi-pair Dicts (D7 shape)
	noQualDepth int
}

func (g *TreeGen) qual() SItem {
	if g.pool == nil || len(g.pool.Paths) == 0 || g.noQualDepth > 0 {
		return id(genName(g.r))
	}
	i := g.r.Intn(len(g.pool.Paths))
	return Qual{Path: g.pool.Paths[i], Name: qName(i)}
}

func (g *TreeGen) lit() SItem {
	r := g.r
	switch r.Intn(16) {
	case 0:
		return mkLit(r.Bool())
	case 1:
		return mkLit(genBytes(r, 12))
	case 2:
		return mkLit(int(int64(r.Next())>>uint(r.Intn(64))))
	case 3:
		return mkLit(genFloat(r))
	case 4:
		return mkLit(float32(genFloat(r)))
	case 5:
		return mkLit(uint8(r.Next()))
	case 6:
		return mkLit(int8(r.Next()))
	case 7:
		return mkLit(uint64(r.Next()) >> uint(r.Intn(64)))
	case 8:
		return mkLit(int64(r.Next()) >> uint(r.Intn(64)))
	case 9:
		return mkLit(complex(genFloat(r), genFloat(r)))
	case 10:
		return mkRune(genRune(r))
	case 11:
		return mkByte(byte(r.Next()))
	case 12:
		if r.Chance(40) {
			// number literals written as raw tokens in non-canonical spelling (gofmt rewrites them)
			return id(pick(r, []string{"0XFF00", "0O644", "0B1010", "6.022E23", "0X1P-2", "0123i", "1_000", "0x1F", "07"}))
		}
		return mkLit(pick(r, []string{"", "a", "hello", "default", "x y"}))
	case 13:
		return mkLit(uintptr(r.Next() >> uint(r.Intn(64))))
	case 14:
		return mkLit(complex64(complex(float32(genFloat(r)), float32(genFloat(r)))))
	default:
		return mkLit(r.Intn(100))
	}
}

func genRune(r *Rng) rune {
	switch r.Intn(6) {
	case 0:
		return rune(r.Intn(0x80))
	case 1:
		return rune(r.Intn(0x800))
	case 2:
		return rune(r.Intn(0x110000))
	case 3:
		return pick(r, []rune{'\'', '"', '\\', '\n', 0, 0xFEFF, 0x7f, 0xFFFD, 0x10FFFF, 0xD7FF, 0xE000, 0x2028, 0xA0})
	default:
		return rune('a' + r.Intn(26))
	}
}

func genFloat(r *Rng) float64 {
	switch r.Intn(10) {
	case 0:
		return float64(r.Intn(2000) - 1000)
	case 1:
		e := r.Intn(61) - 30
		v := math.Pow(10, float64(e))
		if r.Bool() {
			v = -v
		}
		return v
	case 2:
		return pick(r, []float64{0, math.Copysign(0, -1), 1, -1, 0.5, 1e20, 1e21, 1e-4, 1e-5, 123456789, 1e6, 1e5, 999999, 1000000, 100000, 4.9e-324, math.MaxFloat64, -math.MaxFloat64, math.SmallestNonzeroFloat64, 2.2250738585072014e-308, 1 << 53, 1<<53 + 2})
	case 3:
		return float64(int64(r.Next()>>11)) * math.Pow(2, float64(r.Intn(200)-100))
	case 4:
		for {
			v := math.Float64frombits(r.Next())
			if !math.IsNaN(v) && !math.IsInf(v, 0) {
				return v
			}
		}
	default:
		return float64(r.Intn(100000)) / 100
	}
}

func (g *TreeGen) take(n int) bool {
	if g.budget < n {
		return false
	}
	g.budget -= n
	return true
}

func (g *TreeGen) arity() int {
	r := g.r
	switch r.Intn(10) {
	case 0:
		return 0
	case 1, 2:
		return 1
	case 3, 4:
		return 2
	case 5:
		return 3
	default:
		if g.maxArity <= 3 {
			return r.Intn(g.maxArity + 1)
		}
		return 3 + r.Intn(g.maxArity-2)
	}
}

func (g *TreeGen) void() Arg {
	r := g.r
	switch r.Intn(11) {
	case 8:
		// a Dict that renders nothing is a null item like any other (also beside real items in Values)
		return &Dict{}
	case 9:
		return &Dict{Pairs: [][2]Arg{{st(kw("Null")), st(id("x"))}}}
	case 10:
		return &Dict{Pairs: [][2]Arg{{st(id("k")), st()}, {st(kw("Null")), st(id("y"))}}}
	case 0:
		return Nil{}
	case 1:
		return TypedNil{}
	case 2:
		return st(kw("Null"))
	case 3:
		return st()
	case 4:
		return st(&Grp{Api: "List"})
	case 5:
		return st(&Grp{Api: "Union", Args: []Arg{Nil{}, st(kw("Null"))}})
	case 6:
		return st(Tag{})
	default:
		return st(kw("Null"), &AddItems{Args: []Arg{Nil{}, st()}})
	}
}

// args produces an argument list of expression statements
func (g *TreeGen) args(n, depth int, gen func(int) *Stmt) []Arg {
	var out []Arg
	for i := 0; i < n; i++ {
		if g.voids && g.r.Chance(12) {
			out = append(out, g.void())
		}
		out = append(out, gen(depth))
	}
	if g.voids && g.r.Chance(12) {
		out = append(out, g.void())
	}
	return out
}

// group emits a variadic group in plain or Func form
func (g *TreeGen) group(api string, args []Arg) SItem {
	if hasFunc(api) && g.r.Chance(25) {
		items := make([]FuncItem, len(args))
		for i, a := range args {
			if s, ok := a.(*Stmt); ok && len(s.Items) > 0 && g.r.Bool() {
				items[i] = FuncItem{Wrapped: false, A: a}
			} else {
				items[i] = FuncItem{Wrapped: true, A: a}
			}
		}
		// now and then a re-entrant Add from inside the next item's leading ...Func callback
		for i := 0; i < len(items); i++ {
			if s, ok := items[i].A.(*Stmt); ok && !items[i].Wrapped && len(s.Items) > 0 && g.r.Chance(20) {
				switch s.Items[0].(type) {
				case *GrpFunc, *CustomFunc:
					items = append(items[:i], append([]FuncItem{{Wrapped: true, Hoist: true, A: st(id("hoisted"))}}, items[i:]...)...)
					i++
				}
			}
		}
		return &GrpFunc{Api: api, Items: items}
	}
	return &Grp{Api: api, Args: args}
}

var binOps = []string{"+", "-", "*", "/", "==", "!=", "<", "&&", "||", "<<", "&^", "%"}

func (g *TreeGen) typ(depth int) *Stmt {
	r := g.r
	g.take(1)
	if depth <= 0 || g.budget <= 0 {
		return st(kw(pick(r, []string{"Int", "String", "Bool", "Error", "Float64", "Byte", "Any"})))
	}
	switch r.Intn(9) {
	case 0:
		return st(op("*"), &AddItems{Args: []Arg{g.typ(depth - 1)}})
	case 1:
		return st(&Grp{Api: "Index"}, &AddItems{Args: []Arg{g.typ(depth - 1)}})
	case 2:
		return st(&Grp{Api: "Map", Args: []Arg{g.typ(depth - 1)}}, &AddItems{Args: []Arg{g.typ(depth - 1)}})
	case 3:
		return st(g.qual())
	case 4:
		return st(kw("Chan"), &AddItems{Args: []Arg{g.typ(depth - 1)}})
	case 5:
		return st(kw("Func"), g.group("Params", g.args(g.arity()%3, depth-1, g.typ)), &AddItems{Args: []Arg{g.typ(depth - 1)}})
	case 6:
		return st(g.group("Struct", g.args(g.arity()%3, depth-1, g.field)))
	case 7:
		return st(id(genName(r)), g.group("Types", g.args(1+r.Intn(2), depth-1, g.typ)))
	default:
		return st(kw(pick(r, []string{"Int", "String", "Bool", "Error", "Float64", "Uint8", "Rune"})))
	}
}

func (g *TreeGen) field(depth int) *Stmt {
	s := st(id(genName(g.r)), &AddItems{Args: []Arg{g.typ(depth - 1)}})
	if g.r.Chance(30) {
		s.Items = append(s.Items, g.tag())
	}
	if g.comments && g.r.Chance(15) {
		s.Items = append(s.Items, g.comment())
	}
	return s
}

func (g *TreeGen) tag() SItem {
	r := g.r
	n := r.Intn(4)
	seen := map[string]bool{}
	var kv [][2]string
	for len(kv) < n {
		k := pick(r, []string{"json", "xml", "db", "yaml", "a", "b-c", "k_1", "Z"})
		if seen[k] {
			continue
		}
		seen[k] = true
		v := genBytes(r, 10)
		if r.Chance(50) {
			v = pick(r, []string{"name", "name,omitempty", "-", "", "a b", "x\"y", "q`r"})
		}
		kv = append(kv, [2]string{k, v})
	}
	return Tag{KV: kv}
}

func (g *TreeGen) commentText() string {
	r := g.r
	switch r.Intn(6) {
	case 0:
		return "line one\nline two"
	case 1:
		return "trailing newline\n"
	case 2:
		return "looks like code: x := 1; }"
	case 3:
		t := genBytes(r, 14)
		// (carriage returns stay: the Go scanner drops them from comments, the text goes on to
		// the end of the line — the survival test compares without them)
		t = strings.ReplaceAll(t, "\x00", "")
		t = strings.ToValidUTF8(t, "")
		// gofmt itself rewrites `` and '' inside comments to curly quotes (a gofmt behaviour,
		// outside jennifer): keep them out of the texts whose survival is checked
		// (repeatedly: "```" becomes "` ``" after one pass)
		for strings.Contains(t, "``") || strings.Contains(t, "''") {
			t = strings.ReplaceAll(t, "``", "` `")
			t = strings.ReplaceAll(t, "''", "' '")
		}
		t = strings.ReplaceAll(t, "\ufeff", "")
		// the property's domain excludes texts containing the closing marker — checked LAST:
		// removing a NUL, an invalid byte or a BOM from between `*` and `/` would re-create it
		// (false alarm of the sixth thorough run, seed 17: `/*\x00/*`)
		for strings.Contains(t, "*/") {
			t = strings.ReplaceAll(t, "*/", "* /")
		}
		if strings.HasPrefix(t, "//") || strings.HasPrefix(t, "/*") {
			t = " " + t
		}
		return t
	default:
		return pick(r, []string{"a comment", "TODO", "unicode: 世界", "quote \" and ` and '", "braces { } ( ) [ ]", "100% done", "50%d of %s", "%", "ends in %", "cr\rpanic(1)", "crlf\r\nsecond line", "trailing cr\r", "\rleading cr"})
	}
}

func (g *TreeGen) comment() SItem { return Comment{Text: g.commentText()} }

func (g *TreeGen) dict(depth int) *Dict {
	r := g.r
	n := r.Intn(5)
	d := &Dict{}
	if n > 1 && !g.multiDictQual {
		g.noQualDepth++
		defer func() { g.noQualDepth-- }()
	}
	for i := 0; i < n; i++ {
		var k, v Arg
		switch r.Intn(5) {
		case 0:
			k = st(id(genName(r)))
		case 1:
			k = st(mkLit(pick(r, []string{"a", "b", "ab", "a.b", "k"})))
		case 2:
			k = st(mkLit(r.Intn(5)))
		case 3:
			k = st(g.qual())
		default:
			k = g.expr(depth - 1)
		}
		v = g.expr(depth - 1)
		if r.Chance(8) {
			k = st(kw("Null"))
		}
		if r.Chance(8) {
			v = st(kw("Null"))
		}
		d.Pairs = append(d.Pairs, [2]Arg{k, v})
	}
	return d
}

func (g *TreeGen) expr(depth int) *Stmt {
	r := g.r
	g.take(1)
	if depth <= 0 || g.budget <= 0 {
		switch r.Intn(4) {
		case 0:
			return st(g.lit())
		case 1:
			return st(g.qual())
		default:
			return st(id(genName(r)))
		}
	}
	switch r.Intn(16) {
	case 0, 1:
		return st(id(genName(r)), g.group("Call", g.args(g.arity(), depth-1, g.expr)))
	case 2:
		return st(g.qual(), g.group("Call", g.args(g.arity(), depth-1, g.expr)))
	case 3:
		a := g.expr(depth - 1)
		b := g.expr(depth - 1)
		return st(&AddItems{Args: []Arg{a}}, op(pick(r, binOps)), &AddItems{Args: []Arg{b}})
	case 4:
		return st(id(genName(r)), g.group("Index", g.args(1+r.Intn(3), depth-1, g.expr)))
	case 5:
		return st(id(genName(r)), Tok{Api: "Dot", HasArg: true, Arg: genName(r)})
	case 6:
		return st(&Grp{Api: "Parens", Args: []Arg{g.expr(depth - 1)}})
	case 7:
		return st(op(pick(r, []string{"&", "*", "-", "!", "<-", "^"})), &AddItems{Args: []Arg{g.expr(depth - 1)}})
	case 8:
		// slice / composite literal
		return st(&Grp{Api: "Index"}, &AddItems{Args: []Arg{g.typ(depth - 1)}}, g.group("Values", g.args(g.arity(), depth-1, g.expr)))
	case 9:
		if g.dicts {
			return st(&Grp{Api: "Map", Args: []Arg{st(kw("String"))}}, &AddItems{Args: []Arg{g.typ(depth - 1)}}, &Grp{Api: "Values", Args: []Arg{g.dict(depth)}})
		}
		return st(g.lit())
	case 10:
		return st(kw("Func"), g.group("Params", g.args(g.arity()%3, depth-1, g.param)), g.block(depth-1))
	case 11:
		return st(id(genName(r)), &Grp{Api: "Assert", Args: []Arg{g.typ(depth - 1)}})
	case 12:
		api := pick(r, []string{"Len", "Cap", "New", "Panic", "Real", "Imag", "Close", "Clear"})
		return st(&Grp{Api: api, Args: []Arg{g.expr(depth - 1)}})
	case 13:
		api := pick(r, []string{"Append", "Min", "Max", "Print", "Println", "Make"})
		return st(g.group(api, g.args(1+r.Intn(3), depth-1, g.expr)))
	case 14:
		return st(g.lit())
	default:
		return st(g.qual())
	}
}

func (g *TreeGen) param(depth int) *Stmt {
	return st(id(genName(g.r)), &AddItems{Args: []Arg{g.typ(depth - 1)}})
}

func (g *TreeGen) block(depth int) SItem {
	return g.group("Block", g.args(g.arity(), depth, g.stmt))
}

func (g *TreeGen) stmt(depth int) *Stmt {
	r := g.r
	g.take(1)
	if depth <= 0 || g.budget <= 0 {
		switch r.Intn(4) {
		case 0:
			return st(&Grp{Api: "Return"})
		case 1:
			if g.comments {
				return st(g.comment())
			}
			return st(kw("Break"))
		default:
			return st(id(genName(r)), op("="), g.lit())
		}
	}
	var s *Stmt
	switch r.Intn(16) {
	case 0, 1:
		s = st(id(genName(r)), op(pick(r, []string{":=", "=", "+="})), &AddItems{Args: []Arg{g.expr(depth - 1)}})
	case 2:
		s = st(g.group("If", g.args(1+r.Intn(2), depth-1, g.expr)), g.block(depth-1))
		if r.Chance(30) {
			s.Items = append(s.Items, kw("Else"), g.block(depth-1))
		}
	case 3:
		s = st(g.group("For", g.args(r.Intn(4), depth-1, g.expr)), g.block(depth-1))
	case 4:
		// switch with case blocks
		var cases []Arg
		nc := r.Intn(4)
		for i := 0; i < nc; i++ {
			cases = append(cases, st(g.group("Case", g.args(1+r.Intn(3), depth-1, g.expr)), g.block(depth-1)))
		}
		if r.Bool() {
			cases = append(cases, st(kw("Default"), g.block(depth-1)))
		}
		s = st(g.group("Switch", g.args(r.Intn(2), depth-1, g.expr)), g.group("Block", cases))
	case 5:
		s = st(g.group("Return", g.args(g.arity()%4, depth-1, g.expr)))
	case 6:
		s = st(kw("Var"), id(genName(r)), &AddItems{Args: []Arg{g.typ(depth - 1)}})
	case 7:
		s = st(kw(pick(r, []string{"Defer", "Go"})), &AddItems{Args: []Arg{g.expr(depth - 1)}})
	case 8:
		s = g.expr(depth - 1)
	case 9:
		s = st(g.group("List", g.args(1+r.Intn(3), depth-1, func(int) *Stmt { return st(id(genName(r))) })), op(":="), g.group("List", g.args(1+r.Intn(3), depth-1, g.expr)))
	case 10:
		s = st(kw("Var"), g.group("Defs", g.args(g.arity()%4, depth-1, func(d int) *Stmt {
			return st(id(genName(r)), op("="), &AddItems{Args: []Arg{g.expr(d - 1)}})
		})))
	case 11:
		s = st(kw("Select"), g.group("Block", []Arg{st(g.group("Case", []Arg{g.expr(depth - 1)}), g.block(depth-1))}))
	case 12:
		if g.comments {
			s = st(g.comment())
		} else {
			s = st(kw("Continue"))
		}
	case 13:
		s = st(kw("Type"), id(genName(r)), g.group("Interface", g.args(g.arity()%3, depth-1, func(d int) *Stmt {
			return st(id(genName(r)), g.group("Params", nil), &AddItems{Args: []Arg{g.typ(d - 1)}})
		})))
	case 14:
		s = st(&Grp{Api: "For", Args: []Arg{st(g.group("List", []Arg{st(id("i")), st(id("v"))}), op(":="), kw("Range"), &AddItems{Args: []Arg{g.expr(depth - 1)}})}}, g.block(depth-1))
	default:
		s = st(kw("Goto"), id(genName(r)))
	}
	if g.comments && r.Chance(10) {
		s.Items = append(s.Items, g.comment())
	}
	return s
}

func (g *TreeGen) decl(depth int) *Stmt {
	r := g.r
	switch r.Intn(6) {
	case 0, 1, 2:
		s := st(kw("Func"))
		if r.Chance(25) {
			s.Items = append(s.Items, &Grp{Api: "Params", Args: []Arg{st(id("r"), op("*"), id("T"))}})
		}
		s.Items = append(s.Items, id(genName(r)))
		if r.Chance(15) {
			s.Items = append(s.Items, g.group("Types", g.args(r.Intn(3), depth, func(int) *Stmt { return st(id("T"), kw("Any")) })))
		}
		s.Items = append(s.Items, g.group("Params", g.args(g.arity()%4, depth, g.param)))
		if r.Chance(40) {
			s.Items = append(s.Items, &AddItems{Args: []Arg{g.typ(depth - 1)}})
		}
		s.Items = append(s.Items, g.block(depth))
		return s
	case 3:
		return st(kw("Type"), id(genName(r)), g.group("Struct", g.args(g.arity()%5, depth, g.field)))
	case 4:
		return st(kw("Var"), id(genName(r)), op("="), &AddItems{Args: []Arg{g.expr(depth)}})
	default:
		return st(kw("Const"), g.group("Defs", g.args(1+r.Intn(3), depth, func(int) *Stmt {
			return st(id(genName(r)), op("="), g.lit())
		})))
	}
}

// wildItem: arbitrary API calls with arbitrary arguments (mostly invalid Go)
func (g *TreeGen) wildItem(depth int) SItem {
	r := g.r
	g.take(1)
	k := r.Intn(14)
	if depth <= 0 || g.budget <= 0 {
		k = r.Intn(6)
	}
	switch k {
	case 0:
		return kw(pick(r, tokNoArg))
	case 1:
		return id(genName(r))
	case 2:
		return op(pick(r, []string{"+", ":=", "...", "", "<-", "*", ":", ";", "default", "{", ")"}))
	case 3:
		return g.lit()
	case 4:
		return g.qual()
	case 5:
		if r.Bool() {
			return g.tag()
		}
		return g.comment()
	case 6, 7, 8:
		api := pick(r, grpVariadic)
		return g.group(api, g.wildArgs(g.arity(), depth-1))
	case 9:
		api := pick(r, grpFixedNames)
		return &Grp{Api: api, Args: g.wildArgs(grpFixed[api], depth-1)}
	case 10:
		c := &Custom{Open: pick(r, []string{"", "(", "[", "<", "{"}), Close: pick(r, []string{"", ")", "]", ">", "}"}), Sep: pick(r, []string{"", ",", ";", "|", " "}), Multi: r.Bool(), Args: g.wildArgs(g.arity(), depth-1)}
		if r.Chance(20) {
			// the ZERO Options value: items written back to back (nothing between them, no
			// delimiters), with neighbours that read differently when a space is put between them
			c.Open, c.Close, c.Sep, c.Multi = "", "", "", false
			if r.Bool() {
				c.Args = []Arg{st(id("x")), st(op("<")), st(op("-")), st(id("ch"))}
				if r.Bool() {
					c.Args = []Arg{st(id("a")), st(id("b")), st(mkLit(1))}
				}
			}
		}
		if r.Chance(25) {
			items := make([]FuncItem, len(c.Args))
			for i, a := range c.Args {
				items[i] = FuncItem{Wrapped: true, A: a}
			}
			return &CustomFunc{Open: c.Open, Close: c.Close, Sep: c.Sep, Multi: c.Multi, Items: items}
		}
		return c
	case 11:
		return &AddItems{Args: g.wildArgs(g.arity()%4, depth-1)}
	case 12:
		if g.dicts {
			// Values with a Dict, sometimes beside other items (the documented misuse)
			args := []Arg{g.dict(depth)}
			if r.Chance(15) {
				args = append(args, g.wildArg(depth-1))
			}
			return &Grp{Api: "Values", Args: args}
		}
		return Tok{Api: "Dot", HasArg: true, Arg: genName(r)}
	default:
		return Tok{Api: "Dot", HasArg: true, Arg: genName(r)}
	}
}

func (g *TreeGen) wildArg(depth int) Arg {
	r := g.r
	if r.Chance(10) {
		return g.void()
	}
	if g.dicts && r.Chance(4) {
		return g.dict(depth)
	}
	n := 1 + r.Intn(3)
	s := st()
	for i := 0; i < n; i++ {
		s.Items = append(s.Items, g.wildItem(depth))
	}
	return s
}

func (g *TreeGen) wildArgs(n, depth int) []Arg {
	out := make([]Arg, n)
	for i := range out {
		out[i] = g.wildArg(depth)
	}
	return out
}

// ---------------------------------------------------------------- file-level generation

type FileCfg struct {
	prefixPct, hintPct, anonPct, cgoPct, commentPct, localPct, dotPct, noFormatPct int
	wildCgo bool // preamble texts gofmt would alter or reject
	guardHints bool // keep hints inside HintsOk
}

// genWildPreamble: C text as users paste it — trailing blanks, tabs, carriage returns, indented
// closers, comment delimiters inside (what gofmt would alter or reject if it sees it)
func genWildPreamble(r *Rng) string {
	lines := []string{"#include <a.h>", "int x;", "static int f(void) {", "\treturn 1;", "}", "#cgo LDFLAGS: -lm", "  indented", "trailing   ", "tab\t", "cr\r", "*/ +++ /*", "/* inner */", "// slashes", "", "   */", "/*", "unicode \u00e9\u3000", "a\tb"}
	var parts []string
	for i := 0; i < 1+r.Intn(4); i++ {
		parts = append(parts, pick(r, lines))
	}
	t := strings.Join(parts, "\n")
	switch r.Intn(6) {
	case 0:
		t += "\n"
	case 1:
		t = "// " + t
	case 2:
		t = "/* " + t + " */"
	}
	return t
}

var defaultFileCfg = FileCfg{prefixPct: 25, hintPct: 40, anonPct: 20, cgoPct: 10, commentPct: 20, localPct: 25, dotPct: 15, noFormatPct: 30, guardHints: true}

func lowerOps(paths []string) []Op {
	// the toLower parameter of the model: supply the real strings.ToLower for every last
	// element that is not plain ASCII
	var ops []Op
	seen := map[string]bool{}
	for _, p := range paths {
		a := p
		if strings.HasSuffix(a, "/") {
			a = a[:len(a)-1]
		}
		if i := strings.LastIndex(a, "/"); i >= 0 {
			a = a[i+1:]
		}
		ascii := true
		for i := 0; i < len(a); i++ {
			if a[i] >= 0x80 {
				ascii = false
			}
		}
		if !ascii && !seen[a] {
			seen[a] = true
			ops = append(ops, Op{Kind: OpLower, Str: []string{a, strings.ToLower(a)}})
		}
	}
	return ops
}

// genFileSetup emits the ops creating and configuring file F<f>.
func genFileSetup(r *Rng, f int, pool *PathPool, cfg FileCfg) []Op {
	var ops []Op
	var all []string
	all = append(all, pool.Paths...)
	switch r.Intn(3) {
	case 0:
		ops = append(ops, Op{Kind: OpFile, F: f, Str: []string{"new", "", pick(r, []string{"main", "p", "foo"})}})
	case 1:
		p := pick(r, pool.Paths)
		if !r.Chance(cfg.localPct) {
			p = "example.org/self/" + pick(r, baseNames)
		}
		if p == "C" {
			p = "example.org/self/c"
		}
		for _, k := range goKeywords {
			// NewFilePath infers the package name from the path: a keyword there is the
			// caller's mistake, not an import-naming question
			if strings.HasSuffix(strings.TrimSuffix(p, "/"), "/"+k) || p == k {
				p = "example.org/self/okname"
			}
		}
		all = append(all, p)
		ops = append(ops, Op{Kind: OpFile, F: f, Str: []string{"path", p, ""}})
	default:
		p := pick(r, pool.Paths)
		if !r.Chance(cfg.localPct) || p == "C" {
			p = "example.org/self"
		}
		// package NAMES with a conventional meaning (external test packages, main, versions): the
		// name must have no influence on what counts as the local path
		name := pick(r, []string{"main", "p", "foo", "foo_test", "p_test", "main_test", "v2", "internal", "vendor", "x_test_x", "Test", "d"})
		ops = append(ops, Op{Kind: OpFile, F: f, Str: []string{"pathname", p, name}})
		if strings.HasSuffix(name, "_test") && r.Bool() && sanePath(p) {
			// … and neither has the path that such a name conventionally goes with
			pool.Paths = append(pool.Paths, p+"_test")
		}
	}
	if r.Chance(cfg.prefixPct) {
		ops = append(ops, Op{Kind: OpSet, F: f, Str: []string{"prefix", pick(r, []string{"pkg", "p", "x_y", "d"})}})
	}
	if r.Chance(cfg.noFormatPct) {
		ops = append(ops, Op{Kind: OpSet, F: f, Str: []string{"noformat", "1"}})
	}
	if r.Chance(8) {
		ops = append(ops, Op{Kind: OpSet, F: f, Str: []string{"canonical", pick(r, []string{"a.com/canon", "x", genBytes(r, 8)})}})
	}
	if r.Chance(cfg.hintPct) {
		n := 1 + r.Intn(4)
		for i := 0; i < n; i++ {
			p := pick(r, pool.Paths)
			if r.Chance(30) {
				p = genPath(r) // a hint for a path never referenced
				all = append(all, p)
			}
			switch r.Intn(4) {
			case 0:
				ops = append(ops, Op{Kind: OpHintName, F: f, Str: []string{p, genHintName(r)}})
			case 1:
				a := genHintName(r)
				if r.Chance(cfg.dotPct * 3) {
					a = "."
				}
				ops = append(ops, Op{Kind: OpHintAlias, F: f, Str: []string{p, a}})
			case 2:
				var kv [][2]string
				seen := map[string]bool{}
				for j := 0; j < 1+r.Intn(5); j++ {
					q := pick(r, pool.Paths)
					if r.Bool() {
						q = genPath(r)
						all = append(all, q)
					}
					if !seen[q] {
						seen[q] = true
						kv = append(kv, [2]string{q, genHintName(r)})
					}
					// a second key that a "tolerant" normalisation would identify with q: the map
					// then holds two entries for what the code may treat as one path
					if r.Chance(25) && q != "" {
						v := q + "/"
						switch r.Intn(4) {
						case 0:
							v = strings.TrimSuffix(q, "/")
						case 1:
							v = strings.ToUpper(q[:1]) + q[1:]
						case 2:
							v = q + "/."
						}
						if v != "" && v != "C" && !seen[v] {
							seen[v] = true
							all = append(all, v)
							kv = append(kv, [2]string{v, genHintName(r)})
						}
					}
				}
				ops = append(ops, Op{Kind: OpHintNames, F: f, KV: kv})
			default:
				ops = append(ops, Op{Kind: OpHintAlias, F: f, Str: []string{p, "."}})
			}
		}
	}
	if r.Chance(cfg.anonPct) {
		var ps []string
		for j := 0; j < 1+r.Intn(3); j++ {
			p := genPath(r)
			if r.Chance(30) {
				p = pick(r, pool.Paths)
			}
			ps = append(ps, p)
			all = append(all, p)
		}
		ops = append(ops, Op{Kind: OpAnon, F: f, Str: ps})
	}
	if r.Chance(cfg.cgoPct) {
		for j := 0; j < 1+r.Intn(2); j++ {
			pre := pick(r, []string{"#include <stdio.h>", "#include <a.h>\n#include <b.h>", "// raw form", "/* block form */"})
			if cfg.wildCgo && r.Chance(70) {
				pre = genWildPreamble(r)
			}
			ops = append(ops, Op{Kind: OpCgo, F: f, Str: []string{pre}})
		}
	}
	if r.Chance(cfg.commentPct) {
		g := &TreeGen{r: r}
		// several header / package comments per File, among them the empty text (the usual way
		// to write a paragraph break inside a multi-paragraph comment) and blank-only texts
		text := func() string {
			switch r.Intn(8) {
			case 0:
				return ""
			case 1:
				return pick(r, []string{" ", "\t", "."})
			}
			return g.commentText()
		}
		nh, np := 0, 0
		if r.Bool() {
			nh = 1 + r.Intn(3)*r.Intn(2)
		}
		if r.Bool() {
			np = 1 + r.Intn(3)*r.Intn(2)
		}
		for j := 0; j < nh; j++ {
			ops = append(ops, Op{Kind: OpHeader, F: f, Str: []string{text()}})
		}
		for j := 0; j < np; j++ {
			ops = append(ops, Op{Kind: OpPkgComment, F: f, Str: []string{text()}})
		}
	}
	return append(lowerOps(all), ops...)
}

// addToFile emits ops that put statement term s into file f, through one of the three routes.
func addToFile(r *Rng, f int, s *Stmt, nextReg *int) []Op {
	switch r.Intn(3) {
	case 0:
		return []Op{{Kind: OpFAdd, F: f, Args: []Arg{s}}}
	case 1:
		*nextReg++
		reg := *nextReg
		return []Op{{Kind: OpStmt, S: reg, Items: s.Items}, {Kind: OpFAdd, F: f, Args: []Arg{Ref{Reg: reg}}}}
	default:
		if len(s.Items) == 0 {
			return []Op{{Kind: OpFAdd, F: f, Args: []Arg{s}}}
		}
		*nextReg++
		reg := *nextReg
		// group form: first item through the File's Group method, the rest appended to the
		// returned statement afterwards (visible through the file)
		k := 1 + r.Intn(len(s.Items))
		ops := []Op{{Kind: OpFNew, S: reg, F: f, Items: s.Items[:k]}}
		if k < len(s.Items) {
			ops = append(ops, Op{Kind: OpApp, S: reg, Items: s.Items[k:]})
		}
		return ops
	}
}

// validateCase checks that a generated recipe only uses API names that exist in the tables
// regenerated from /repo (a harness bug otherwise, not a property violation).
func validateCase(c *Case) error {
	var err error
	var vArg func(a Arg)
	var vItems func(items []SItem)
	vArgs := func(as []Arg) {
		for _, a := range as {
			vArg(a)
		}
	}
	vArg = func(a Arg) {
		switch x := a.(type) {
		case *Stmt:
			vItems(x.Items)
		case *Dict:
			for _, p := range x.Pairs {
				vArg(p[0])
				vArg(p[1])
			}
		}
	}
	vItems = func(items []SItem) {
		for _, it := range items {
			switch x := it.(type) {
			case Tok:
				ta, ok := genTokens[x.Api]
				if !ok || ta != x.HasArg {
					err = fmt.Errorf("generator used unknown token API %q", x.Api)
				}
			case *Grp:
				ar, ok := genConstructs[x.Api]
				if !ok {
					err = fmt.Errorf("generator used unknown construct %q", x.Api)
				} else if strings.HasPrefix(ar, "fixed") && ar != fmt.Sprintf("fixed%d", len(x.Args)) {
					err = fmt.Errorf("generator used %q with %d args (%s)", x.Api, len(x.Args), ar)
				}
				vArgs(x.Args)
			case *GrpFunc:
				if genConstructs[x.Api+"Func"] != "callback" {
					err = fmt.Errorf("generator used unknown Func variant %q", x.Api)
				}
				for _, fi := range x.Items {
					vArg(fi.A)
				}
			case *Custom:
				vArgs(x.Args)
			case *CustomFunc:
				for _, fi := range x.Items {
					vArg(fi.A)
				}
			case *AddItems:
				vArgs(x.Args)
			}
		}
	}
	for _, o := range c.Ops {
		vItems(o.Items)
		vArgs(o.Args)
	}
	return err
}
