package main

// Generic traversal / rewriting of recipe terms.

import "strconv"

type termVisitor struct {
	item func(SItem)
	arg  func(Arg)
}

func walkArg(a Arg, v *termVisitor) {
	if v.arg != nil {
		v.arg(a)
	}
	switch x := a.(type) {
	case *Stmt:
		walkItems(x.Items, v)
	case *Dict:
		for _, p := range x.Pairs {
			walkArg(p[0], v)
			walkArg(p[1], v)
		}
	}
}

func walkItems(items []SItem, v *termVisitor) {
	for _, it := range items {
		if v.item != nil {
			v.item(it)
		}
		switch x := it.(type) {
		case *Grp:
			for _, a := range x.Args {
				walkArg(a, v)
			}
		case *GrpFunc:
			for _, fi := range x.Items {
				walkArg(fi.A, v)
			}
		case *Custom:
			for _, a := range x.Args {
				walkArg(a, v)
			}
		case *CustomFunc:
			for _, fi := range x.Items {
				walkArg(fi.A, v)
			}
		case *AddItems:
			for _, a := range x.Args {
				walkArg(a, v)
			}
		}
	}
}

func walkCase(c *Case, v *termVisitor) {
	for _, o := range c.Ops {
		walkItems(o.Items, v)
		for _, a := range o.Args {
			walkArg(a, v)
		}
	}
}

// poolOf reconstructs the path pool of a case from its Qual items (name Q<i>z <-> pool[i]).
func poolOf(c *Case) []string {
	m := map[int]string{}
	max := -1
	walkCase(c, &termVisitor{item: func(it SItem) {
		if q, ok := it.(Qual); ok {
			if mm := qNameRe.FindStringSubmatch(q.Name); mm != nil {
				i, _ := strconv.Atoi(mm[1])
				m[i] = q.Path
				if i > max {
					max = i
				}
			}
		}
	}})
	out := make([]string, max+1)
	for i := range out {
		out[i] = m[i]
		if _, ok := m[i]; !ok {
			out[i] = "\x00unused" + strconv.Itoa(i)
		}
	}
	return out
}

// mapArgs rebuilds a term bottom-up; fArgs may rewrite every argument list of a group-like
// item (api name given; "" for Custom/Add), fItems every item list of a statement.
type rewriter struct {
	args  func(api string, args []Arg) []Arg
	items func(items []SItem) []SItem
	// keepDicts: Dict arguments are copied unchanged (a Dict orders its pairs by the rendered
	// text of the keys, so rewriting inside a pair can legitimately reorder the pairs)
	keepDicts bool
}

func (rw *rewriter) arg(a Arg) Arg {
	switch x := a.(type) {
	case *Stmt:
		return &Stmt{Items: rw.itemsOf(x.Items)}
	case *Dict:
		if rw.keepDicts {
			return x
		}
		d := &Dict{}
		for _, p := range x.Pairs {
			d.Pairs = append(d.Pairs, [2]Arg{rw.arg(p[0]), rw.arg(p[1])})
		}
		return d
	}
	return a
}

func (rw *rewriter) argList(api string, as []Arg) []Arg {
	out := make([]Arg, len(as))
	for i, a := range as {
		out[i] = rw.arg(a)
	}
	if rw.args != nil {
		out = rw.args(api, out)
	}
	return out
}

func (rw *rewriter) funcItems(api string, fis []FuncItem) []FuncItem {
	// Func variants are rewritten through their argument list, wrapped-ness preserved for
	// surviving positions; inserted arguments are always wrapped (g.Add)
	as := make([]Arg, len(fis))
	wrapped := map[Arg]bool{}
	hoist := map[Arg]bool{}
	for i, fi := range fis {
		as[i] = rw.arg(fi.A)
		wrapped[as[i]] = fi.Wrapped
		if fi.Hoist {
			hoist[as[i]] = true
		}
	}
	if rw.args != nil {
		as = rw.args(api, as)
	}
	out := make([]FuncItem, len(as))
	for i, a := range as {
		w, known := wrapped[a]
		if !known {
			w = true
		}
		if s, ok := a.(*Stmt); !w && (!ok || len(s.Items) == 0) {
			w = true
		}
		out[i] = FuncItem{Wrapped: w, A: a, Hoist: w && hoist[a]}
	}
	return out
}

func (rw *rewriter) itemsOf(items []SItem) []SItem {
	out := make([]SItem, 0, len(items))
	for _, it := range items {
		switch x := it.(type) {
		case *Grp:
			out = append(out, &Grp{Api: x.Api, Args: rw.argList(x.Api, x.Args)})
		case *GrpFunc:
			out = append(out, &GrpFunc{Api: x.Api, Items: rw.funcItems(x.Api, x.Items)})
		case *Custom:
			out = append(out, &Custom{Open: x.Open, Close: x.Close, Sep: x.Sep, Multi: x.Multi, Args: rw.argList("Custom", x.Args)})
		case *CustomFunc:
			out = append(out, &CustomFunc{Open: x.Open, Close: x.Close, Sep: x.Sep, Multi: x.Multi, Items: rw.funcItems("Custom", x.Items)})
		case *AddItems:
			out = append(out, &AddItems{Args: rw.argList("Add", x.Args)})
		default:
			out = append(out, it)
		}
	}
	if rw.items != nil {
		out = rw.items(out)
	}
	return out
}

func (rw *rewriter) rewriteCase(c *Case, id string) *Case {
	n := &Case{ID: id}
	for _, o := range c.Ops {
		o2 := o
		if o.Items != nil {
			o2.Items = rw.itemsOf(o.Items)
			if o.Kind == OpFNew && len(o2.Items) == 0 {
				o2.Items = o.Items
			}
		}
		if o.Args != nil {
			api := "File"
			o2.Args = rw.argList(api, o.Args)
		}
		n.Ops = append(n.Ops, o2)
	}
	return n
}
