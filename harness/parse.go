package main

// Parser of recipe text (the protocol lines) back into ops: used by replay and the corpus.

import (
	"fmt"
	"math"
	"strconv"
	"strings"
)

type tokStream struct {
	t []string
	i int
}

func (s *tokStream) next() string {
	if s.i >= len(s.t) {
		panic("unexpected end of line")
	}
	s.i++
	return s.t[s.i-1]
}
func (s *tokStream) str() string { return unesc(s.next()) }
func (s *tokStream) num() int {
	n, err := strconv.Atoi(s.next())
	if err != nil {
		panic("expected number")
	}
	return n
}
func (s *tokStream) reg() int {
	t := s.next()
	n, err := strconv.Atoi(t[1:])
	if err != nil {
		panic("expected register, got " + t)
	}
	return n
}
func (s *tokStream) done() bool { return s.i >= len(s.t) }

func parseFloatText(t string, bits int) float64 {
	v, err := strconv.ParseFloat(t, bits)
	if err != nil {
		if t == "NaN" {
			return math.NaN()
		}
	}
	return v
}

func pLit(s *tokStream) Lit {
	ty := s.next()
	switch ty {
	case "bool":
		return mkLit(s.next() == "1")
	case "str":
		return mkLit(s.str())
	case "int":
		v, _ := strconv.ParseInt(s.next(), 10, 64)
		return mkLit(int(v))
	case "int8", "int16", "int32", "int64":
		v, _ := strconv.ParseInt(s.next(), 10, 64)
		switch ty {
		case "int8":
			return mkLit(int8(v))
		case "int16":
			return mkLit(int16(v))
		case "int32":
			return mkLit(int32(v))
		}
		return mkLit(v)
	case "uint", "uint8", "uint16", "uint32", "uint64", "uintptr":
		v, _ := strconv.ParseUint(s.next(), 10, 64)
		switch ty {
		case "uint":
			return mkLit(uint(v))
		case "uint8":
			return mkLit(uint8(v))
		case "uint16":
			return mkLit(uint16(v))
		case "uint32":
			return mkLit(uint32(v))
		case "uintptr":
			return mkLit(uintptr(v))
		}
		return mkLit(v)
	case "f64":
		return mkLit(parseFloatText(s.str(), 64))
	case "f32":
		return mkLit(float32(parseFloatText(s.str(), 32)))
	case "c128":
		re := parseFloatText(s.str(), 64)
		im := parseFloatText(s.str(), 64)
		return mkLit(complex(re, im))
	case "c64":
		re := parseFloatText(s.str(), 32)
		im := parseFloatText(s.str(), 32)
		return mkLit(complex64(complex(float32(re), float32(im))))
	case "rune":
		v, _ := strconv.ParseInt(s.next(), 10, 64)
		return mkRune(rune(v))
	case "byte":
		return mkByte(byte(s.num()))
	}
	panic("bad literal type " + ty)
}

func pArg(s *tokStream) Arg {
	switch t := s.next(); t {
	case "N":
		return Nil{}
	case "NS":
		return TypedNil{}
	case "R":
		return Ref{Reg: s.reg()}
	case "S":
		n := s.num()
		st := &Stmt{}
		for i := 0; i < n; i++ {
			st.Items = append(st.Items, pItem(s))
		}
		return st
	case "D":
		n := s.num()
		d := &Dict{}
		for i := 0; i < n; i++ {
			k := pArg(s)
			v := pArg(s)
			d.Pairs = append(d.Pairs, [2]Arg{k, v})
		}
		return d
	default:
		panic("bad arg tag " + t)
	}
}

func pFuncItems(s *tokStream, n int) []FuncItem {
	var out []FuncItem
	for i := 0; i < n; i++ {
		m := s.next()
		out = append(out, FuncItem{Wrapped: m == "a" || m == "h", Hoist: m == "h", A: pArg(s)})
	}
	return out
}

func pArgs(s *tokStream, n int) []Arg {
	var out []Arg
	for i := 0; i < n; i++ {
		out = append(out, pArg(s))
	}
	return out
}

func pItem(s *tokStream) SItem {
	switch t := s.next(); t {
	case "K":
		api := s.str()
		if genTokens[api] {
			return Tok{Api: api, HasArg: true, Arg: s.str()}
		}
		return Tok{Api: api}
	case "Q":
		p := s.str()
		return Qual{Path: p, Name: s.str()}
	case "L":
		return pLit(s)
	case "G":
		api := s.str()
		return &Grp{Api: api, Args: pArgs(s, s.num())}
	case "GF":
		api := s.str()
		return &GrpFunc{Api: api, Items: pFuncItems(s, s.num())}
	case "C":
		c := &Custom{Open: s.str(), Close: s.str(), Sep: s.str(), Multi: s.next() == "1"}
		c.Args = pArgs(s, s.num())
		return c
	case "CF":
		c := &CustomFunc{Open: s.str(), Close: s.str(), Sep: s.str(), Multi: s.next() == "1"}
		c.Items = pFuncItems(s, s.num())
		return c
	case "A":
		n := s.num()
		t := Tag{}
		for i := 0; i < n; i++ {
			k := s.str()
			t.KV = append(t.KV, [2]string{k, s.str()})
		}
		return t
	case "M":
		return Comment{Text: s.str()}
	case "ADD":
		return &AddItems{Args: pArgs(s, s.num())}
	default:
		panic("bad item tag " + t)
	}
}

func pItems(s *tokStream) []SItem {
	var out []SItem
	for !s.done() {
		out = append(out, pItem(s))
	}
	return out
}

func parseOp(line string) (op Op, isCase bool, isEnd bool, id string, err error) {
	defer func() {
		if r := recover(); r != nil {
			err = fmt.Errorf("%v in line %q", r, line)
		}
	}()
	f := strings.Fields(line)
	if len(f) == 0 {
		return Op{}, false, false, "", fmt.Errorf("empty")
	}
	s := &tokStream{t: f[1:]}
	switch f[0] {
	case "case":
		return Op{}, true, false, strings.Join(f[1:], " "), nil
	case "end":
		return Op{}, false, true, "", nil
	case "lower":
		return Op{Kind: OpLower, Str: []string{s.str(), s.str()}}, false, false, "", nil
	case "file":
		r := s.reg()
		switch k := s.next(); k {
		case "new":
			return Op{Kind: OpFile, F: r, Str: []string{"new", "", s.str()}}, false, false, "", nil
		case "path":
			return Op{Kind: OpFile, F: r, Str: []string{"path", s.str(), ""}}, false, false, "", nil
		default:
			return Op{Kind: OpFile, F: r, Str: []string{"pathname", s.str(), s.str()}}, false, false, "", nil
		}
	case "set":
		r := s.reg()
		return Op{Kind: OpSet, F: r, Str: []string{s.next(), s.str()}}, false, false, "", nil
	case "hintname":
		r := s.reg()
		return Op{Kind: OpHintName, F: r, Str: []string{s.str(), s.str()}}, false, false, "", nil
	case "hintalias":
		r := s.reg()
		return Op{Kind: OpHintAlias, F: r, Str: []string{s.str(), s.str()}}, false, false, "", nil
	case "hintnames":
		r := s.reg()
		n := s.num()
		o := Op{Kind: OpHintNames, F: r}
		for i := 0; i < n; i++ {
			k := s.str()
			o.KV = append(o.KV, [2]string{k, s.str()})
		}
		return o, false, false, "", nil
	case "anon":
		r := s.reg()
		n := s.num()
		o := Op{Kind: OpAnon, F: r}
		for i := 0; i < n; i++ {
			o.Str = append(o.Str, s.str())
		}
		return o, false, false, "", nil
	case "hc":
		r := s.reg()
		return Op{Kind: OpHeader, F: r, Str: []string{s.str()}}, false, false, "", nil
	case "pc":
		r := s.reg()
		return Op{Kind: OpPkgComment, F: r, Str: []string{s.str()}}, false, false, "", nil
	case "cgo":
		r := s.reg()
		return Op{Kind: OpCgo, F: r, Str: []string{s.str()}}, false, false, "", nil
	case "stmt":
		r := s.reg()
		return Op{Kind: OpStmt, S: r, Items: pItems(s)}, false, false, "", nil
	case "app":
		r := s.reg()
		return Op{Kind: OpApp, S: r, Items: pItems(s)}, false, false, "", nil
	case "clone":
		a := s.reg()
		return Op{Kind: OpClone, S: a, S2: s.reg()}, false, false, "", nil
	case "fadd":
		r := s.reg()
		return Op{Kind: OpFAdd, F: r, Args: pArgs(s, s.num())}, false, false, "", nil
	case "fnew":
		a := s.reg()
		r := s.reg()
		return Op{Kind: OpFNew, S: a, F: r, Items: pItems(s)}, false, false, "", nil
	case "render":
		return Op{Kind: OpRender, F: s.reg()}, false, false, "", nil
	case "frag":
		a := s.reg()
		return Op{Kind: OpFrag, S: a, F: s.reg()}, false, false, "", nil
	case "gfrag":
		a := s.reg()
		return Op{Kind: OpGFrag, F: a, F2: s.reg()}, false, false, "", nil
	}
	return Op{}, false, false, "", fmt.Errorf("unknown op %q", f[0])
}

func ParseCases(text string) ([]*Case, error) {
	var out []*Case
	var cur *Case
	for _, line := range strings.Split(text, "\n") {
		line = strings.TrimSpace(line)
		if line == "" || strings.HasPrefix(line, "#") {
			continue
		}
		op, isCase, isEnd, id, err := parseOp(line)
		if err != nil {
			return nil, err
		}
		switch {
		case isCase:
			cur = &Case{ID: id}
		case isEnd:
			if cur != nil {
				out = append(out, cur)
			}
			cur = nil
		default:
			if cur == nil {
				cur = &Case{ID: "anon"}
			}
			cur.Ops = append(cur.Ops, op)
		}
	}
	if cur != nil {
		out = append(out, cur)
	}
	return out, nil
}
