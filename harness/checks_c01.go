package main

func registerC01() {}
