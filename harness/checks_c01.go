package main

import (
	"fmt"
	"go/ast"
	"go/constant"
	"go/parser"
	"go/token"
	"os"
	"path/filepath"
	"reflect"
	"sort"
	"strconv"
	"strings"
)

// dumpNode: canonical structural text of a syntax tree: positions, comments, object
// resolution, redundant parentheses and empty statements are ignored; literals are compared by
// VALUE (go/constant), as the property demands.
func dumpNode(b *strings.Builder, v reflect.Value) {
	if !v.IsValid() {
		b.WriteString("nil")
		return
	}
	switch v.Kind() {
	case reflect.Interface:
		if v.IsNil() {
			b.WriteString("nil")
			return
		}
		dumpNode(b, v.Elem())
	case reflect.Ptr:
		if v.IsNil() {
			b.WriteString("nil")
			return
		}
		switch n := v.Interface().(type) {
		case *ast.ParenExpr:
			dumpNode(b, reflect.ValueOf(n.X))
			return
		case *ast.BasicLit:
			val := constant.MakeFromLiteral(n.Value, n.Kind, 0)
			fmt.Fprintf(b, "(lit %v %s)", n.Kind, val.ExactString())
			return
		case *ast.CommentGroup, *ast.Comment, *ast.Object, *ast.Scope:
			return
		case *ast.Ident:
			fmt.Fprintf(b, "(id %s)", n.Name)
			return
		}
		dumpNode(b, v.Elem())
	case reflect.Struct:
		t := v.Type()
		b.WriteString("(" + t.Name())
		for i := 0; i < v.NumField(); i++ {
			f := t.Field(i)
			if f.Type == reflect.TypeOf(token.Pos(0)) {
				// positions carry no structure, except presence flags that change meaning
				switch t.Name() + "." + f.Name {
				case "CallExpr.Ellipsis", "TypeSpec.Assign", "GenDecl.Lparen":
					if f.Name != "Lparen" {
						fmt.Fprintf(b, " %s=%v", f.Name, v.Field(i).Int() != 0)
					}
				}
				continue
			}
			if f.Name == "Doc" || f.Name == "Comment" || f.Name == "Obj" || f.Name == "Scope" || f.Name == "Unresolved" || f.Name == "Comments" || f.Name == "Incomplete" || f.Name == "Implicit" {
				continue
			}
			b.WriteString(" " + f.Name + "=")
			dumpNode(b, v.Field(i))
		}
		b.WriteString(")")
	case reflect.Slice:
		b.WriteString("[")
		for i := 0; i < v.Len(); i++ {
			e := v.Index(i)
			if e.Kind() == reflect.Interface && !e.IsNil() {
				if _, empty := e.Interface().(*ast.EmptyStmt); empty {
					continue
				}
			}
			dumpNode(b, e)
			b.WriteString(" ")
		}
		b.WriteString("]")
	default:
		fmt.Fprintf(b, "%v", v.Interface())
	}
}

func dumpDecl(d ast.Decl) string {
	var b strings.Builder
	dumpNode(&b, reflect.ValueOf(d))
	return b.String()
}

func declName(d ast.Decl) string {
	switch x := d.(type) {
	case *ast.FuncDecl:
		return "func " + x.Name.Name
	case *ast.GenDecl:
		if len(x.Specs) > 0 {
			switch s := x.Specs[0].(type) {
			case *ast.ValueSpec:
				return x.Tok.String() + " " + s.Names[0].Name
			case *ast.TypeSpec:
				return "type " + s.Name.Name
			}
		}
		return x.Tok.String()
	}
	return "?"
}

func importSet(f *ast.File) []string {
	var out []string
	for _, is := range f.Imports {
		n := ""
		if is.Name != nil {
			n = is.Name.Name
		}
		out = append(out, n+" "+is.Path.Value)
	}
	sort.Strings(out)
	return out
}

func nonImportDecls(f *ast.File) []ast.Decl {
	var out []ast.Decl
	for _, d := range f.Decls {
		if gd, ok := d.(*ast.GenDecl); ok && gd.Tok == token.IMPORT {
			continue
		}
		out = append(out, d)
	}
	return out
}

// compareFiles: first difference between the source tree and the re-parsed output, or "".
func compareFiles(src, out *ast.File) string {
	if src.Name.Name != out.Name.Name {
		return fmt.Sprintf("package name %s vs %s", src.Name.Name, out.Name.Name)
	}
	a, b := importSet(src), importSet(out)
	if strings.Join(a, ";") != strings.Join(b, ";") {
		return fmt.Sprintf("imports differ: source %v, output %v", a, b)
	}
	da, db := nonImportDecls(src), nonImportDecls(out)
	if len(da) != len(db) {
		return fmt.Sprintf("%d declarations in the source, %d in the output", len(da), len(db))
	}
	for i := range da {
		x, y := dumpDecl(da[i]), dumpDecl(db[i])
		if x != y {
			k := 0
			for k < len(x) && k < len(y) && x[k] == y[k] {
				k++
			}
			lo := k - 60
			if lo < 0 {
				lo = 0
			}
			return fmt.Sprintf("declaration %d (%s) differs near: source …%s… output …%s…", i, declName(da[i]), trunc(x[lo:]), trunc(y[lo:]))
		}
	}
	return ""
}

var c01Sources = map[string][]byte{} // case id -> source

func goSourceFiles() []string {
	var out []string
	root := filepath.Join(goroot(), "src")
	filepath.Walk(root, func(p string, info os.FileInfo, err error) error {
		if err != nil {
			return nil
		}
		if info.IsDir() {
			if info.Name() == "testdata" {
				return filepath.SkipDir
			}
			return nil
		}
		if strings.HasSuffix(p, ".go") {
			out = append(out, p)
		}
		return nil
	})
	sort.Strings(out)
	return out
}

func registerC01() {
	checks["C01"] = &PropCheck{
		Gen: func(cx *CheckCtx) []*Case {
			files := goSourceFiles()
			cx.Extra["go_source_files_available"] = len(files)
			var pickFiles []string
			if cx.Tier == "thorough" {
				pickFiles = files
			} else {
				for i := 0; i < 150 && len(files) > 0; i++ {
					pickFiles = append(pickFiles, files[cx.R.Intn(len(files))])
				}
			}
			var cs []*Case
			nsyn := 0
			synSkipped := map[string]int{}
			skipped := map[string]int{}
			for _, p := range pickFiles {
				src, err := os.ReadFile(p)
				if err != nil || len(src) > 400000 {
					continue
				}
				id := "C01-" + strings.TrimPrefix(p, goroot()+"/src/")
				c, _, problems := ConvertFile(p, src, id)
				if c == nil || len(problems) > 0 {
					for _, pr := range problems {
						k := pr
						if i := strings.Index(k, ":"); i > 0 && strings.HasPrefix(k, "source does not parse") {
							k = k[:i]
						}
						skipped[k]++
					}
					continue
				}
				c01Sources[id] = src
				cs = append(cs, c)
				// three-way tie: the same file as a GoSyn term built by the Lean builder
				if sc, why := ConvertFileSyn(p, src, id+"-syn"); sc != nil {
					cs = append(cs, sc)
					nsyn++
				} else {
					k := why
					if len(k) > 60 {
						k = k[:60]
					}
					synSkipped[k]++
				}
			}
			cx.Extra["files_as_gosyn_terms"] = nsyn
			cx.Extra["files_outside_gosyn"] = synSkipped
			cx.Extra["files_converted"] = len(cs) - nsyn
			cx.Extra["files_not_expressible"] = skipped
			// generated programs (valid by construction most of the time): their source is the
			// formatted output of a first render, re-converted
			for i := 0; i < cx.N(300, 10000); i++ {
				g := genFileCase(cx, 900000+i, func(r *Rng, pool *PathPool) *TreeGen {
					t := validGen(r, sanePool(r, 2+r.Intn(3)))
					t.voids, t.comments, t.dicts = false, false, false
					return t
				}, 1+cx.R.Intn(3), FileCfg{}, 1)
				obs, bp := RunReal(g, &FormChooser{Fixed: 1, r: NewRng(1)}, false)
				if bp != "" || len(obs) == 0 || obs[0].Class != "ok" {
					continue
				}
				id := fmt.Sprintf("C01-gen-%d-%d", cx.Seed, i)
				c, _, problems := ConvertFile(id+".go", []byte(obs[0].Out), id)
				if c == nil || len(problems) > 0 {
					continue
				}
				c01Sources[id] = []byte(obs[0].Out)
				cs = append(cs, c)
			}
			cs = append(cs, sizeSweepCases(cx)...)
			cs = append(cs, rareSyntaxCases(cx)...)
			return cs
		},
		Oracle: func(cx *CheckCtx, runs []*CaseRun) []Finding {
			var fs []Finding
			decls := 0
			for _, cr := range runs {
				src, ok := c01Sources[cr.Case.ID]
				if !ok || len(cr.Real) == 0 {
					continue
				}
				cx.Stats.OracleCases++
				obs := cr.Real[0]
				if obs.Class != "ok" {
					fs = append(fs, Finding{Property: "C01", Shape: "render-" + obs.Class, What: "rendering the program built from " + cr.Case.ID + " failed: " + trunc(obs.Err), Case: cr.Case.ID})
					continue
				}
				fset := token.NewFileSet()
				a, err1 := parser.ParseFile(fset, "src.go", src, parser.SkipObjectResolution)
				b, err2 := parser.ParseFile(fset, "out.go", obs.Out, parser.SkipObjectResolution)
				if err1 != nil || err2 != nil {
					fs = append(fs, Finding{Property: "C01", Shape: "output-unparseable", What: fmt.Sprintf("output of %s does not parse: %v", cr.Case.ID, err2), Case: cr.Case.ID})
					continue
				}
				decls += len(a.Decls)
				if d := compareFiles(a, b); d != "" {
					// shrink: find the first differing declaration and replay it alone
					fs = append(fs, Finding{Property: "C01", Shape: "tree-differs", What: cr.Case.ID + ": " + d, Case: cr.Case.Text()[:min(len(cr.Case.Text()), 20000)]})
				}
			}
			cx.Extra["declarations_compared"] = decls
			return fs
		},
	}
}

func min(a, b int) int {
	if a < b {
		return a
	}
	return b
}

var _ = strconv.Itoa
