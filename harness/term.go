package main

// Recipes: straight-line programs over jennifer's public API (DESIGN §2.4).
// A recipe is a list of ops; ops mention file registers (F<n>), statement registers (S<n>)
// and terms.  The same recipe is (a) serialised to protocol lines for the Lean driver and
// (b) interpreted against the real library (real.go).

import (
	"fmt"
	"strconv"
	"strings"
)

// ---------------------------------------------------------------- escaping

func esc(s string) string {
	if s == "" {
		return "~"
	}
	var b strings.Builder
	for i := 0; i < len(s); i++ {
		c := s[i]
		if (c >= '0' && c <= '9') || (c >= 'A' && c <= 'Z') || (c >= 'a' && c <= 'z') || c == '.' || c == '/' || c == '_' || c == '-' {
			b.WriteByte(c)
		} else {
			fmt.Fprintf(&b, "%%%02x", c)
		}
	}
	return b.String()
}

func unesc(s string) string {
	if s == "~" {
		return ""
	}
	var b strings.Builder
	for i := 0; i < len(s); i++ {
		if s[i] == '%' && i+2 < len(s)+0 && i+2 <= len(s)-1+0 {
			v, err := strconv.ParseUint(s[i+1:i+3], 16, 8)
			if err == nil {
				b.WriteByte(byte(v))
				i += 2
				continue
			}
		}
		b.WriteByte(s[i])
	}
	return b.String()
}

// ---------------------------------------------------------------- terms

// Arg is something that can be passed where the API takes a Code.
type Arg interface{ argTag() }

type Nil struct{}            // untyped nil
type TypedNil struct{}       // (*Statement)(nil)
type Ref struct{ Reg int }   // pointer to a statement register
type Stmt struct{ Items []SItem } // a fresh statement built inline
type Dict struct{ Pairs [][2]Arg }

func (Nil) argTag()      {}
func (TypedNil) argTag() {}
func (Ref) argTag()      {}
func (*Stmt) argTag()    {}
func (*Dict) argTag()    {}

// SItem is one builder call on a statement.
type SItem interface{ itemTag() }

type Tok struct { // K <Api> [arg]
	Api    string
	HasArg bool
	Arg    string
}
type Qual struct{ Path, Name string }
type Lit struct {
	Type string   // bool str int int8.. uint64 uintptr f64 f32 c128 c64 rune byte
	V    []string // payload tokens (already in protocol form, unescaped strings)
	Val  interface{}
}
type Grp struct {
	Api  string
	Args []Arg
}
type FuncItem struct {
	Wrapped bool // true: g.Add(arg); false: group-form method chain building arg (a *Stmt)
	A       Arg
	// Hoist (with Wrapped): a re-entrant callback.  The item is g.Add(arg) like any wrapped item,
	// but the real interpreter performs it from INSIDE the callback of the next item's inner
	// group (e.g. the condition callback of g.IfFunc), i.e. while that item is being built and
	// before it is appended.  The model treats it as a plain Add at its place in the list.
	Hoist bool
}
type GrpFunc struct {
	Api   string
	Items []FuncItem
	pre   func() // real interpreter only: run at the start of the callback (re-entrant Add)
}
type Custom struct {
	Open, Close, Sep string
	Multi            bool
	Args             []Arg
}
type CustomFunc struct {
	Open, Close, Sep string
	Multi            bool
	Items            []FuncItem
	pre              func()
}
type Tag struct{ KV [][2]string } // in the order given; keys distinct
type Comment struct{ Text string }
type AddItems struct{ Args []Arg }

func (Tok) itemTag()         {}
func (Qual) itemTag()        {}
func (Lit) itemTag()         {}
func (*Grp) itemTag()        {}
func (*GrpFunc) itemTag()    {}
func (*Custom) itemTag()     {}
func (*CustomFunc) itemTag() {}
func (Tag) itemTag()         {}
func (Comment) itemTag()     {}
func (*AddItems) itemTag()   {}

func b01(b bool) string {
	if b {
		return "1"
	}
	return "0"
}

func serArg(b *strings.Builder, a Arg) {
	switch x := a.(type) {
	case Nil:
		b.WriteString(" N")
	case TypedNil:
		b.WriteString(" NS")
	case Ref:
		fmt.Fprintf(b, " R S%d", x.Reg)
	case *Stmt:
		fmt.Fprintf(b, " S %d", len(x.Items))
		for _, it := range x.Items {
			serItem(b, it)
		}
	case *Dict:
		fmt.Fprintf(b, " D %d", len(x.Pairs))
		for _, p := range x.Pairs {
			serArg(b, p[0])
			serArg(b, p[1])
		}
	default:
		panic(fmt.Sprintf("serArg: %T", a))
	}
}

func serFuncItems(b *strings.Builder, items []FuncItem) {
	for _, it := range items {
		if it.Hoist {
			b.WriteString(" h")
		} else if it.Wrapped {
			b.WriteString(" a")
		} else {
			b.WriteString(" m")
		}
		serArg(b, it.A)
	}
}

func serItem(b *strings.Builder, it SItem) {
	switch x := it.(type) {
	case Tok:
		b.WriteString(" K " + esc(x.Api))
		if x.HasArg {
			b.WriteString(" " + esc(x.Arg))
		}
	case Qual:
		b.WriteString(" Q " + esc(x.Path) + " " + esc(x.Name))
	case Lit:
		b.WriteString(" L " + x.Type)
		for _, v := range x.V {
			b.WriteString(" " + esc(v))
		}
	case *Grp:
		fmt.Fprintf(b, " G %s %d", esc(x.Api), len(x.Args))
		for _, a := range x.Args {
			serArg(b, a)
		}
	case *GrpFunc:
		fmt.Fprintf(b, " GF %s %d", esc(x.Api), len(x.Items))
		serFuncItems(b, x.Items)
	case *Custom:
		fmt.Fprintf(b, " C %s %s %s %s %d", esc(x.Open), esc(x.Close), esc(x.Sep), b01(x.Multi), len(x.Args))
		for _, a := range x.Args {
			serArg(b, a)
		}
	case *CustomFunc:
		fmt.Fprintf(b, " CF %s %s %s %s %d", esc(x.Open), esc(x.Close), esc(x.Sep), b01(x.Multi), len(x.Items))
		serFuncItems(b, x.Items)
	case Tag:
		fmt.Fprintf(b, " A %d", len(x.KV))
		for _, kv := range x.KV {
			b.WriteString(" " + esc(kv[0]) + " " + esc(kv[1]))
		}
	case Comment:
		b.WriteString(" M " + esc(x.Text))
	case *AddItems:
		fmt.Fprintf(b, " ADD %d", len(x.Args))
		for _, a := range x.Args {
			serArg(b, a)
		}
	default:
		panic(fmt.Sprintf("serItem: %T", it))
	}
}

func serItems(items []SItem) string {
	var b strings.Builder
	for _, it := range items {
		serItem(&b, it)
	}
	return b.String()
}

// ---------------------------------------------------------------- ops

type OpKind int

const (
	OpFile OpKind = iota // file F kind path name
	OpSet                // set F key val
	OpHintName
	OpHintAlias
	OpHintNames
	OpAnon
	OpHeader
	OpPkgComment
	OpCgo
	OpStmt   // stmt S items
	OpApp    // app S items
	OpClone  // clone Sdst Ssrc
	OpFAdd   // fadd F args
	OpFNew   // fnew S F items
	OpRender // render F
	OpFrag   // frag S F
	OpGFrag  // gfrag Fg F
	OpLower  // lower a b
)

type Op struct {
	Kind   OpKind
	F      int // file register
	F2     int
	S      int // statement register
	S2     int
	Str    []string // string operands
	KV     [][2]string
	Items  []SItem
	Args   []Arg
	// render options (real side only; the model sees them through fx lines)
	WriterFailAt int // 0 = never; k>0 = k-th Write call fails
}

type Case struct {
	ID   string
	Ops  []Op
	Note string
	// ModelText, when set, is what the MODEL driver receives instead of the serialised ops
	// (C01 three-way tie: the same program as a GoSyn term, built by the Lean builder)
	ModelText string
}

func (o Op) Line() string {
	switch o.Kind {
	case OpFile:
		switch o.Str[0] {
		case "new":
			return fmt.Sprintf("file F%d new %s", o.F, esc(o.Str[2]))
		case "path":
			return fmt.Sprintf("file F%d path %s", o.F, esc(o.Str[1]))
		default:
			return fmt.Sprintf("file F%d pathname %s %s", o.F, esc(o.Str[1]), esc(o.Str[2]))
		}
	case OpSet:
		return fmt.Sprintf("set F%d %s %s", o.F, o.Str[0], esc(o.Str[1]))
	case OpHintName:
		return fmt.Sprintf("hintname F%d %s %s", o.F, esc(o.Str[0]), esc(o.Str[1]))
	case OpHintAlias:
		return fmt.Sprintf("hintalias F%d %s %s", o.F, esc(o.Str[0]), esc(o.Str[1]))
	case OpHintNames:
		var b strings.Builder
		fmt.Fprintf(&b, "hintnames F%d %d", o.F, len(o.KV))
		for _, kv := range o.KV {
			b.WriteString(" " + esc(kv[0]) + " " + esc(kv[1]))
		}
		return b.String()
	case OpAnon:
		var b strings.Builder
		fmt.Fprintf(&b, "anon F%d %d", o.F, len(o.Str))
		for _, p := range o.Str {
			b.WriteString(" " + esc(p))
		}
		return b.String()
	case OpHeader:
		return fmt.Sprintf("hc F%d %s", o.F, esc(o.Str[0]))
	case OpPkgComment:
		return fmt.Sprintf("pc F%d %s", o.F, esc(o.Str[0]))
	case OpCgo:
		return fmt.Sprintf("cgo F%d %s", o.F, esc(o.Str[0]))
	case OpStmt:
		return fmt.Sprintf("stmt S%d%s", o.S, serItems(o.Items))
	case OpApp:
		return fmt.Sprintf("app S%d%s", o.S, serItems(o.Items))
	case OpClone:
		return fmt.Sprintf("clone S%d S%d", o.S, o.S2)
	case OpFAdd:
		var b strings.Builder
		fmt.Fprintf(&b, "fadd F%d %d", o.F, len(o.Args))
		for _, a := range o.Args {
			serArg(&b, a)
		}
		return b.String()
	case OpFNew:
		return fmt.Sprintf("fnew S%d F%d%s", o.S, o.F, serItems(o.Items))
	case OpRender:
		return fmt.Sprintf("render F%d", o.F)
	case OpFrag:
		return fmt.Sprintf("frag S%d F%d", o.S, o.F)
	case OpGFrag:
		return fmt.Sprintf("gfrag F%d F%d", o.F, o.F2)
	case OpLower:
		return fmt.Sprintf("lower %s %s", esc(o.Str[0]), esc(o.Str[1]))
	}
	panic("bad op")
}

func (o Op) IsRender() bool { return o.Kind == OpRender || o.Kind == OpFrag || o.Kind == OpGFrag }

func (c *Case) Lines() []string {
	out := []string{"case " + c.ID}
	for _, o := range c.Ops {
		out = append(out, o.Line())
	}
	out = append(out, "end")
	return out
}

func (c *Case) Text() string { return strings.Join(c.Lines(), "\n") + "\n" }

// DriverText is what is sent to the model driver for this case.
func (c *Case) DriverText() string {
	if c.ModelText != "" {
		return c.ModelText
	}
	return c.Text()
}
