package main

import (
	"fmt"
	"go/ast"
	"go/constant"
	"go/parser"
	"go/token"
	"go/types"
	"math"
	"reflect"
	"regexp"
	"strconv"
	"strings"
	"unicode/utf8"
)

// a literal case: NoFormat file `var x = <lit>` so that raw bytes are compared (L1)
// The literal is built through each of the three call forms in turn (case after case): as a method
// of the statement chain, by the package function (`….Add(Lit(v))`), and as a method of a Group
// (inside a delimiter-less CustomFunc: `g.Lit(v)`).  All three lines read `var x = <lit>`.
var litFormCounter int

var litFormForced = -1

func litRHS(l Lit) SItem {
	litFormCounter++
	form := (litFormCounter + litFormCounter/3) % 3
	if litFormForced >= 0 {
		form = litFormForced
	}
	switch form {
	case 1:
		return &AddItems{Args: []Arg{st(l)}}
	case 2:
		return &CustomFunc{Items: []FuncItem{{Wrapped: false, A: st(l)}}}
	}
	return l
}

func litCase(id string, l Lit) *Case {
	c := &Case{ID: id}
	c.Ops = append(c.Ops, Op{Kind: OpFile, F: 0, Str: []string{"new", "", "p"}})
	c.Ops = append(c.Ops, Op{Kind: OpSet, F: 0, Str: []string{"noformat", "1"}})
	c.Ops = append(c.Ops, Op{Kind: OpFAdd, F: 0, Args: []Arg{st(kw("Var"), id2("x"), op("="), litRHS(l))}})
	c.Ops = append(c.Ops, Op{Kind: OpRender, F: 0})
	return c
}

func id2(s string) SItem { return id(s) }

func litOf(c *Case) (Lit, bool) {
	var l Lit
	found := false
	walkCase(c, &termVisitor{item: func(it SItem) {
		if x, ok := it.(Lit); ok && !found {
			l = x
			found = true
		}
	}})
	return l, found
}

// all literals of a case, in statement order, and the right-hand sides of all `var x = …` lines
func litsOfAll(c *Case) []Lit {
	var ls []Lit
	walkCase(c, &termVisitor{item: func(it SItem) {
		if x, ok := it.(Lit); ok {
			ls = append(ls, x)
		}
	}})
	return ls
}

func exprsOf(out string) []string {
	var es []string
	for _, line := range strings.Split(out, "\n") {
		if strings.HasPrefix(line, "var x = ") {
			es = append(es, strings.TrimPrefix(line, "var x = "))
		}
	}
	return es
}

// several literals in ONE file, one `var x = <lit>` statement each (what a literal renders as must
// not depend on the literals rendered before it with the same File)
func litSeqCase(id string, ls []Lit) *Case {
	c := &Case{ID: id}
	c.Ops = append(c.Ops, Op{Kind: OpFile, F: 0, Str: []string{"new", "", "p"}})
	c.Ops = append(c.Ops, Op{Kind: OpSet, F: 0, Str: []string{"noformat", "1"}})
	for _, l := range ls {
		c.Ops = append(c.Ops, Op{Kind: OpFAdd, F: 0, Args: []Arg{st(kw("Var"), id2("x"), op("="), l)}})
	}
	c.Ops = append(c.Ops, Op{Kind: OpRender, F: 0})
	return c
}

func exprOf(out string) (string, bool) {
	i := strings.Index(out, "var x = ")
	if i < 0 {
		return "", false
	}
	return strings.TrimSuffix(out[i+len("var x = "):], "\n"), true
}

func finite(f float64) bool { return !math.IsNaN(f) && !math.IsInf(f, 0) }

func genLitCases(cx *CheckCtx) []*Case {
	var cs []*Case
	n := 0
	add := func(v interface{}) {
		// NaN and infinities are outside the property (finite values only)
		switch x := v.(type) {
		case float64:
			if !finite(x) {
				return
			}
		case float32:
			if !finite(float64(x)) {
				return
			}
		case complex128:
			if !finite(real(x)) || !finite(imag(x)) {
				return
			}
		case complex64:
			if !finite(float64(real(x))) || !finite(float64(imag(x))) {
				return
			}
		}
		n++
		cs = append(cs, litCase(fmt.Sprintf("C11-%d-%d", cx.Seed, n), mkLit(v)))
	}
	r := cx.R
	// 8-bit exhaustive always; 16-bit exhaustive in the thorough tier, sampled otherwise
	for i := 0; i < 256; i++ {
		add(int8(i))
		add(uint8(i))
	}
	if cx.Tier == "thorough" {
		for i := 0; i < 65536; i++ {
			add(int16(i))
			add(uint16(i))
		}
	} else {
		for i := 0; i < 1000; i++ {
			add(int16(r.Next()))
			add(uint16(r.Next()))
		}
	}
	bounds := []int64{0, 1, -1, math.MaxInt64, math.MinInt64, math.MaxInt32, math.MinInt32, math.MaxInt32 + 1, math.MinInt32 - 1, 1 << 53, 255, 256, -128, -129, 65535, 65536, 9, 10, 99, 100}
	for _, b := range bounds {
		add(int(b))
		add(int64(b))
		add(int32(b))
		add(uint(b))
		add(uint32(b))
		add(uint64(b))
		add(uintptr(b))
	}
	// floats AT the limits of the integer types and the powers of two around them (a conversion
	// between float and integer text is exact only inside the range), both signs
	for k := 0; k <= 70; k++ {
		p2 := math.Ldexp(1, k)
		for _, v := range []float64{p2, p2 - 1, p2 + 1, math.Nextafter(p2, 0), math.Nextafter(p2, math.Inf(1))} {
			add(v)
			add(-v)
			if k%8 == 7 || k%8 == 0 {
				add(float32(v))
				add(complex(v, -v))
			}
		}
	}
	for _, b := range bounds {
		add(float64(b))
		add(-float64(b))
		add(float32(b))
	}
	add(uint64(math.MaxUint64))
	add(uint(math.MaxUint64))
	add(uintptr(math.MaxUint64))
	add(true)
	add(false)
	for i := 0; i < cx.N(600, 100000); i++ {
		sh := uint(r.Intn(64))
		add(int(int64(r.Next()) >> sh))
		add(int64(r.Next()) >> sh)
		add(int32(r.Next()))
		add(uint(r.Next() >> sh))
		add(uint32(r.Next()))
		add(uint64(r.Next()) >> sh)
		add(uintptr(r.Next() >> sh))
	}
	// floats: every decade around the %g switch-overs, both signs, integral values, extremes
	for e := -330; e <= 310; e++ {
		for _, m := range []float64{1, 1.5, 9.999999999999999, 2.5, 1.0000000000000002} {
			v := m * math.Pow(10, float64(e))
			if finite(v) {
				add(v)
				add(-v)
				if f := float32(v); finite(float64(f)) {
					add(f)
				}
			}
		}
	}
	for _, v := range []float64{0, math.Copysign(0, -1), 1, 100, 1e5, 1e6, 999999, 1000000, 123456789, 1e20, 1e21, 1e22, 0.0001, 0.00001, 4.9e-324, math.MaxFloat64, 2.2250738585072014e-308, 1 << 53, 0.1, 1.0 / 3} {
		add(v)
		add(-v)
		add(float32(v))
		add(complex(v, -v))
		add(complex64(complex(float32(v), float32(1))))
	}
	for i := 0; i < cx.N(800, 150000); i++ {
		v := genFloat(r)
		add(v)
		w := genFloat(r)
		if f := float32(w); finite(float64(f)) {
			add(f)
		}
		add(complex(genFloat(r), genFloat(r)))
		a, b := float32(genFloat(r)), float32(genFloat(r))
		if finite(float64(a)) && finite(float64(b)) {
			add(complex64(complex(a, b)))
		}
	}
	return cs
}

var litTypeNames = map[string]string{"bool": "untyped bool", "int": "untyped int", "f64": "untyped float", "c128": "untyped complex",
	"f32": "float32", "c64": "complex64", "int8": "int8", "int16": "int16", "int32": "int32", "int64": "int64", "uint": "uint", "uint8": "uint8",
	"uint16": "uint16", "uint32": "uint32", "uint64": "uint64", "uintptr": "uintptr"}

func constOf(v interface{}) constant.Value {
	switch x := v.(type) {
	case bool:
		return constant.MakeBool(x)
	case int, int8, int16, int32, int64:
		return constant.MakeInt64(reflect.ValueOf(x).Int())
	case uint, uint8, uint16, uint32, uint64, uintptr:
		return constant.MakeUint64(reflect.ValueOf(x).Uint())
	case float64:
		return constant.MakeFloat64(x)
	case float32:
		return constant.MakeFloat64(float64(x))
	case complex128:
		return constant.BinaryOp(constant.MakeFloat64(real(x)), token.ADD, constant.MakeImag(constant.MakeFloat64(imag(x))))
	case complex64:
		return constant.BinaryOp(constant.MakeFloat64(float64(real(x))), token.ADD, constant.MakeImag(constant.MakeFloat64(float64(imag(x)))))
	}
	return constant.MakeUnknown()
}

var gShapeRe = regexp.MustCompile(`^-?[0-9]+(\.[0-9]+)?(e[+-][0-9][0-9]+)?$`)

func oracleC11(cx *CheckCtx, runs []*CaseRun) []Finding {
	var fs []Finding
	// validate the assumption the theorems make about the delegated strconv.FormatFloat:
	// every text handed to the model for a finite value has G-shape
	nG := 0
	for _, cr := range runs {
		for _, l := range litsOfAll(cr.Case) {
			switch l.Type {
			case "f64", "f32", "c128", "c64":
				for _, t := range l.V {
					nG++
					if !gShapeRe.MatchString(t) {
						fs = append(fs, Finding{Property: "C11", Shape: "assumption-gshape", What: fmt.Sprintf("strconv.FormatFloat produced %q, which is outside the G-shape the theorems assume", t), Case: cr.Case.Text()})
					}
				}
			}
		}
	}
	cx.Extra["gshape_texts_validated"] = nG
	pkg := types.NewPackage("p", "p")
	fset := token.NewFileSet()
	for _, cr := range runs {
		lits := litsOfAll(cr.Case)
		if len(lits) == 0 || len(cr.Real) == 0 {
			continue
		}
		var exprs []string
		if cr.Real[0].Class == "ok" {
			exprs = exprsOf(cr.Real[0].Out)
			if len(exprs) != len(lits) {
				fs = append(fs, Finding{Property: "C11", Shape: "lit-count", What: fmt.Sprintf("%d literals built, %d `var x = …` lines rendered", len(lits), len(exprs)), Case: cr.Case.Text(), Observed: trunc(cr.Real[0].Out)})
				continue
			}
		}
		if len(lits) > 1 {
			cx.hist(fmt.Sprintf("literals-in-one-file:%d", len(lits)))
		}
		for li, l := range lits {
		cx.Stats.OracleCases++
		cx.hist("type:" + l.Type)
		fail := func(what, shape string, obs string) {
			fs = append(fs, Finding{Property: "C11", Shape: shape, What: fmt.Sprintf("Lit(%s %v): %s", l.Type, l.V, what), Case: cr.Case.Text(), Observed: obs})
		}
		if cr.Real[0].Class != "ok" {
			fail("render failed: "+cr.Real[0].Class, "lit-render-"+cr.Real[0].Class, cr.Real[0].Err)
			continue
		}
		expr := exprs[li]
		tv, err := types.Eval(fset, pkg, token.NoPos, expr)
		if err != nil {
			fail("rendered expression does not type-check: "+err.Error(), "lit-invalid-expression", expr)
			continue
		}
		if tv.Value == nil {
			fail("rendered expression is not a constant", "lit-not-constant", expr)
			continue
		}
		wantT := litTypeNames[l.Type]
		if tv.Type.String() != wantT {
			// -0.0 and friends are still untyped float; an integral float rendered as int is the bug
			fail(fmt.Sprintf("type is %s, want %s", tv.Type, wantT), "lit-wrong-type", expr)
			continue
		}
		want := constOf(l.Val)
		got := tv.Value
		if l.Type == "bool" {
			if constant.BoolVal(got) != l.Val.(bool) {
				fail("wrong boolean value", "lit-wrong-value", expr)
			}
			continue
		}
		okv := true
		switch x := l.Val.(type) {
		case float64:
			f, _ := constant.Float64Val(got)
			okv = f == x && math.Signbit(f) == math.Signbit(x) || (x == 0 && f == 0)
		case float32:
			f, _ := constant.Float32Val(got)
			okv = f == x
		case complex128:
			re, _ := constant.Float64Val(constant.Real(got))
			im, _ := constant.Float64Val(constant.Imag(got))
			okv = re == real(x) && im == imag(x)
		case complex64:
			re, _ := constant.Float32Val(constant.Real(got))
			im, _ := constant.Float32Val(constant.Imag(got))
			okv = re == real(x) && im == imag(x)
		default:
			okv = constant.Compare(got, token.EQL, want)
		}
		if !okv {
			fail(fmt.Sprintf("value is %s, want %s", got.ExactString(), want.ExactString()), "lit-wrong-value", expr)
		}
		}
	}
	return fs
}

// ---------------------------------------------------------------- C12

func genStrCases(cx *CheckCtx) []*Case {
	var cs []*Case
	n := 0
	add := func(l Lit) {
		n++
		cs = append(cs, litCase(fmt.Sprintf("C12-%d-%d", cx.Seed, n), l))
	}
	for b := 0; b < 256; b++ {
		// every byte value through every call form
		for form := 0; form < 3; form++ {
			for _, variant := range []string{"-plain", "-func"} {
				litFormForced = form
				n++
				cs = append(cs, litCase(fmt.Sprintf("C12-%d-%d%s", cx.Seed, n, variant), mkByte(byte(b))))
			}
		}
		litFormForced = -1
		add(mkLit(string([]byte{byte(b)})))
		add(mkLit("a" + string([]byte{byte(b)}) + "\"b"))
	}
	r := cx.R
	for i := 0; i < cx.N(4000, 400000); i++ {
		add(mkLit(genBytes(r, 24)))
	}
	// text-like strings: words joined by the separators real text contains (LF, CRLF, tab, lone CR)
	words := []string{"Usage:", "tool", "[flags]", "a", "b", "hello", "世界", "x=1", "--help", "end."}
	seps := []string{" ", "\n", "\r\n", "\t", "\r", "  ", "\n\n", "\r\n\r\n"}
	for i := 0; i < cx.N(1500, 100000); i++ {
		var b strings.Builder
		sep := pick(r, seps)
		for k := 0; k < 1+r.Intn(5); k++ {
			if k > 0 {
				if r.Chance(70) {
					b.WriteString(sep)
				} else {
					b.WriteString(pick(r, seps))
				}
			}
			b.WriteString(pick(r, words))
		}
		if r.Chance(40) {
			b.WriteString(sep)
		}
		add(mkLit(b.String()))
	}
	for _, p := range nastyPieces {
		add(mkLit(p))
		add(mkLit(p + p))
		add(mkLit("x" + p + "y"))
	}
	if cx.Tier == "thorough" {
		for cp := rune(0); cp <= 0x10FFFF; cp++ {
			if cp >= 0xD800 && cp <= 0xDFFF {
				continue
			}
			add(mkRune(cp))
		}
	} else {
		for cp := rune(0); cp < 0x300; cp++ {
			add(mkRune(cp))
		}
		for _, cp := range []rune{0xFEFF, 0xFFFD, 0xFFFE, 0xFFFF, 0x10000, 0x10FFFF, 0xD7FF, 0xE000, 0x2028, 0x2029, 0x200B, 0xAD, 0x1F600, 0xE0001} {
			add(mkRune(cp))
		}
		for i := 0; i < 3000; i++ {
			cp := rune(r.Intn(0x110000))
			if cp >= 0xD800 && cp <= 0xDFFF {
				continue
			}
			add(mkRune(cp))
		}
	}
	return cs
}

func oracleC12(cx *CheckCtx, runs []*CaseRun) []Finding {
	var fs []Finding
	for _, cr := range runs {
		lits := litsOfAll(cr.Case)
		if len(lits) == 0 || len(cr.Real) == 0 {
			continue
		}
		var exprs []string
		if cr.Real[0].Class == "ok" {
			exprs = exprsOf(cr.Real[0].Out)
			if len(exprs) != len(lits) {
				fs = append(fs, Finding{Property: "C12", Shape: "lit-count", What: fmt.Sprintf("%d literals built, %d `var x = …` lines rendered (a literal leaked a line break or swallowed one)", len(lits), len(exprs)), Case: cr.Case.Text(), Observed: trunc(cr.Real[0].Out)})
				continue
			}
		}
		if len(lits) > 1 {
			cx.hist(fmt.Sprintf("literals-in-one-file:%d", len(lits)))
		}
		for li, l := range lits {
		if l.Type == "str" {
			n := len(l.Val.(string))
			switch {
			case n >= 1<<16:
				cx.hist("string-length:>=64KiB")
			case n >= 1<<12:
				cx.hist("string-length:>=4KiB")
			}
		}
		cx.Stats.OracleCases++
		fail := func(what, shape, obs string) {
			fs = append(fs, Finding{Property: "C12", Shape: shape, What: fmt.Sprintf("%s literal %s: %s", l.Type, trunc(fmt.Sprintf("%q", fmt.Sprint(l.V))), what), Case: cr.Case.Text(), Observed: obs})
		}
		if cr.Real[0].Class != "ok" {
			fail("render failed", "lit-render-"+cr.Real[0].Class, cr.Real[0].Err)
			continue
		}
		expr := exprs[li]
		// one token, nothing leaks: x := <lit>; y  must scan to exactly the expected tokens
		toks, _, err := codeTokens("x := " + expr + "; y")
		if n := len(toks); n > 0 && toks[n-1].tok == token.SEMICOLON {
			toks = toks[:n-1] // the automatic semicolon at end of input
		}
		if err != nil {
			fail("scanner rejects the literal: "+err.Error(), "lit-scanner-error", expr)
			continue
		}
		switch l.Type {
		case "str":
			if len(toks) != 5 || toks[2].tok != token.STRING {
				fail("literal is not exactly one STRING token", "lit-not-one-token", expr)
				continue
			}
			got, err := strconv.Unquote(toks[2].lit)
			if err != nil || got != l.Val.(string) {
				fail(fmt.Sprintf("value reads back as %s", trunc(strconv.Quote(got))), "lit-wrong-value", trunc(expr))
			}
		case "rune":
			if len(toks) != 5 || toks[2].tok != token.CHAR {
				fail("literal is not exactly one CHAR token", "lit-not-one-token", expr)
				continue
			}
			got, _, _, err := strconv.UnquoteChar(toks[2].lit[1:len(toks[2].lit)-1], '\'')
			want := l.Val.(rune)
			if !utf8.ValidRune(want) {
				continue // outside the property's domain
			}
			if err != nil || got != want {
				fail(fmt.Sprintf("value reads back as %U", got), "lit-wrong-value", expr)
			}
		case "byte":
			// byte ( INT )
			if len(toks) != 8 || toks[2].lit != "byte" || toks[4].tok != token.INT {
				fail("not of the form byte(<int>)", "lit-not-byte-conversion", expr)
				continue
			}
			v, err := strconv.ParseUint(toks[4].lit, 0, 8)
			if err != nil || byte(v) != l.Val.(byte) {
				fail(fmt.Sprintf("value reads back as %d", v), "lit-wrong-value", expr)
			}
		}
		}
	}
	return fs
}

// ---------------------------------------------------------------- C17

func genTagCases(cx *CheckCtx) []*Case {
	var cs []*Case
	r := cx.R
	keyAlpha := "abcdefghijklmnopqrstuvwxyzABCDEFGHIJKLMNOPQRSTUVWXYZ0123456789_-.,;!#$%&'()*+/<=>?@[]^`{|}~\\"
	for i := 0; i < cx.N(3000, 200000); i++ {
		n := r.Intn(9)
		if r.Chance(3) {
			n = pick(r, []int{16, 17, 33, 65}) // many keys
		}
		seen := map[string]bool{}
		var kv [][2]string
		for len(kv) < n {
			kl := 1 + r.Intn(5)
			var kb []byte
			for j := 0; j < kl; j++ {
				kb = append(kb, keyAlpha[r.Intn(len(keyAlpha))])
			}
			k := string(kb)
			if r.Chance(50) && n <= 9 {
				k = pick(r, []string{"json", "xml", "db", "a", "b", "ab", "a-b", "Z9"})
			}
			if seen[k] {
				continue
			}
			seen[k] = true
			v := genBytes(r, 16)
			if r.Chance(30) {
				v = pick(r, []string{"", "name,omitempty", "-", "a b", "with \"quotes\"", "back`quote", "new\nline", "\xff\xfe", "x:\"y\"", "\\", "tab\there"})
			}
			kv = append(kv, [2]string{k, v})
		}
		c := &Case{ID: fmt.Sprintf("C17-%d-%d", cx.Seed, i)}
		c.Ops = append(c.Ops, Op{Kind: OpFile, F: 0, Str: []string{"new", "", "p"}})
		if r.Bool() {
			c.Ops = append(c.Ops, Op{Kind: OpSet, F: 0, Str: []string{"noformat", "1"}})
		}
		c.Ops = append(c.Ops, Op{Kind: OpFAdd, F: 0, Args: []Arg{st(kw("Type"), id("T"), &Grp{Api: "Struct", Args: []Arg{st(id("F"), kw("Int"), Tag{KV: kv})}})}})
		c.Ops = append(c.Ops, Op{Kind: OpRender, F: 0})
		cs = append(cs, c)
	}
	return cs
}

func oracleC17(cx *CheckCtx, runs []*CaseRun) []Finding {
	var fs []Finding
	for _, cr := range runs {
		var tg *Tag
		walkCase(cr.Case, &termVisitor{item: func(it SItem) {
			if t, ok := it.(Tag); ok && tg == nil {
				tg = &t
			}
		}})
		if tg == nil || len(cr.Real) == 0 {
			continue
		}
		cx.Stats.OracleCases++
		cx.hist(fmt.Sprintf("keys:%d", len(tg.KV)))
		fail := func(what, shape, obs string) {
			fs = append(fs, Finding{Property: "C17", Shape: shape, What: what, Case: cr.Case.Text(), Observed: trunc(obs)})
		}
		obs := cr.Real[0]
		if obs.Class != "ok" {
			fail("struct with tag did not render: "+obs.Class, "tag-render-"+obs.Class, obs.Err)
			continue
		}
		fset := token.NewFileSet()
		f, err := parser.ParseFile(fset, "", obs.Out, 0)
		if err != nil {
			fail("output does not parse: "+err.Error(), "tag-unparseable", obs.Out)
			continue
		}
		var field *ast.Field
		ast.Inspect(f, func(n ast.Node) bool {
			if st, ok := n.(*ast.StructType); ok && field == nil && len(st.Fields.List) == 1 {
				field = st.Fields.List[0]
			}
			return true
		})
		if field == nil {
			fail("no struct field found", "tag-no-field", obs.Out)
			continue
		}
		if len(tg.KV) == 0 {
			if field.Tag != nil {
				fail("empty tag map rendered a tag", "tag-empty-rendered", obs.Out)
			}
			continue
		}
		if field.Tag == nil {
			fail("tag missing", "tag-missing", obs.Out)
			continue
		}
		val, err := strconv.Unquote(field.Tag.Value)
		if err != nil {
			fail("tag literal does not unquote", "tag-bad-literal", field.Tag.Value)
			continue
		}
		stag := reflect.StructTag(val)
		for _, kv := range tg.KV {
			got, ok := stag.Lookup(kv[0])
			if !ok || got != kv[1] {
				fail(fmt.Sprintf("Lookup(%q) = %q, %v; want %q", kv[0], got, ok, kv[1]), "tag-lookup-mismatch", field.Tag.Value)
				break
			}
		}
		// keys in sorted order
		ks := tagKeys(val)
		for i := 1; i < len(ks); i++ {
			if ks[i-1] > ks[i] {
				fail("keys not in sorted order", "tag-key-order", val)
				break
			}
		}
		if len(ks) != len(tg.KV) {
			fail(fmt.Sprintf("%d keys given, %d found in the tag", len(tg.KV), len(ks)), "tag-key-count", val)
		}
	}
	return fs
}

func sortStrings(xs []string) {
	for i := 1; i < len(xs); i++ {
		for j := i; j > 0 && xs[j-1] > xs[j]; j-- {
			xs[j-1], xs[j] = xs[j], xs[j-1]
		}
	}
}

// tagKeys lists the keys of a conventional struct tag in order (reflect.StructTag's scan).
func tagKeys(tag string) []string {
	var out []string
	for tag != "" {
		i := 0
		for i < len(tag) && tag[i] == ' ' {
			i++
		}
		tag = tag[i:]
		if tag == "" {
			break
		}
		i = 0
		for i < len(tag) && tag[i] > ' ' && tag[i] != ':' && tag[i] != '"' && tag[i] != 0x7f {
			i++
		}
		if i == 0 || i+1 >= len(tag) || tag[i] != ':' || tag[i+1] != '"' {
			break
		}
		name := tag[:i]
		tag = tag[i+1:]
		i = 1
		for i < len(tag) && tag[i] != '"' {
			if tag[i] == '\\' {
				i++
			}
			i++
		}
		if i >= len(tag) {
			break
		}
		tag = tag[i+1:]
		out = append(out, name)
	}
	return out
}
