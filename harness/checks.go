package main

import (
	"fmt"
	"sort"
	"strings"
)

// generic whole-file case: setup, body of declarations, one or more renders
func genFileCase(cx *CheckCtx, i int, tg func(r *Rng, pool *PathPool) *TreeGen, nDecl int, cfg FileCfg, renders int) *Case {
	r := cx.R.Fork()
	pool := genPool(r, 2+r.Intn(6))
	c := &Case{ID: fmt.Sprintf("%s-%d-%d", cx.Prop, cx.Seed, i)}
	c.Ops = append(c.Ops, genFileSetup(r, 0, pool, cfg)...)
	g := tg(r, pool)
	reg := 0
	for d := 0; d < nDecl; d++ {
		var s *Stmt
		if g.wild {
			a := g.wildArg(4)
			if ws, ok := a.(*Stmt); ok {
				s = ws
			} else {
				// a void or a Dict at top level: add it as an argument of File.Add
				c.Ops = append(c.Ops, Op{Kind: OpFAdd, F: 0, Args: []Arg{a}})
				continue
			}
		} else {
			s = g.decl(3 + r.Intn(3))
		}
		c.Ops = append(c.Ops, addToFile(r, 0, s, &reg)...)
	}
	for k := 0; k < renders; k++ {
		c.Ops = append(c.Ops, Op{Kind: OpRender, F: 0})
	}
	return c
}

func validGen(r *Rng, pool *PathPool) *TreeGen {
	return &TreeGen{r: r, pool: pool, budget: 40 + r.Intn(160), maxArity: 12, voids: r.Chance(50), dicts: true, comments: r.Chance(40)}
}

func wildGen(r *Rng, pool *PathPool) *TreeGen {
	return &TreeGen{r: r, pool: pool, budget: 10 + r.Intn(60), maxArity: 6, wild: true, voids: true, dicts: true, comments: true}
}

func registerChecks() {
	registerImportChecks()
	fileCases := func(cx *CheckCtx, n int, tg func(r *Rng, pool *PathPool) *TreeGen, cfg FileCfg, maxDecl int) []*Case {
		var cs []*Case
		for i := 0; i < n; i++ {
			cs = append(cs, genFileCase(cx, i, tg, 1+cx.R.Intn(maxDecl), cfg, 1))
		}
		return cs
	}
	plainCfg := defaultFileCfg
	plainCfg.commentPct = 0
	// C01 is registered in checks_c01.go
	registerC01()
	checks["C02"] = &PropCheck{
		Gen: func(cx *CheckCtx) []*Case {
			var cs []*Case
			n := cx.N(3000, 200000)
			cfg := defaultFileCfg
			cfg.wildCgo, cfg.cgoPct = true, 20
			for i := 0; i < n; i++ {
				r := cx.R
				var c *Case
				switch i % 4 {
				case 0:
					c = genFileCase(cx, i, validGen, 1+r.Intn(3), cfg, 1)
				case 1:
					c = damage(genFileCase(cx, i, validGen, 1+r.Intn(3), cfg, 1), r)
				default:
					c = genFileCase(cx, i, wildGen, 1+r.Intn(3), cfg, 1)
				}
				cs = append(cs, withFrags(c, r))
			}
			return cs
		},
		Oracle: oracleC02,
	}
	checks["C07"] = &PropCheck{
		Gen: func(cx *CheckCtx) []*Case {
			var cs []*Case
			for i := 0; i < cx.N(1200, 40000); i++ {
				cs = append(cs, dropInsane(genFileCase(cx, i, func(r *Rng, pool *PathPool) *TreeGen {
					g := validGen(r, sanePool(r, 3+r.Intn(4)))
					g.multiDictQual = r.Chance(30)
					return g
				}, 1+cx.R.Intn(3), defaultFileCfg, 1)))
			}
			for i := 0; i < cx.N(400, 5000); i++ {
				cs = append(cs, genDictCase(cx, 500000+i, true))
			}
			// the D7 shape: Dict keys referencing not-yet-imported packages with one base name
			for i := 0; i < cx.N(100, 2000); i++ {
				r := cx.R.Fork()
				c := &Case{ID: fmt.Sprintf("C07-d7-%d-%d", cx.Seed, i)}
				c.Ops = append(c.Ops, Op{Kind: OpFile, F: 0, Str: []string{"new", "", "p"}})
				d := &Dict{}
				for k := 0; k < 2+r.Intn(4); k++ {
					d.Pairs = append(d.Pairs, [2]Arg{st(Qual{Path: fmt.Sprintf("h%d.com/d", k), Name: qName(k)}), st(mkLit(k))})
				}
				c.Ops = append(c.Ops, Op{Kind: OpFAdd, F: 0, Args: []Arg{st(kw("Var"), id("m"), op("="), &Grp{Api: "Map", Args: []Arg{st(kw("Any"))}}, kw("Any"), &Grp{Api: "Values", Args: []Arg{d}})}})
				c.Ops = append(c.Ops, Op{Kind: OpRender, F: 0})
				cs = append(cs, c)
			}
			for i := 0; i < cx.N(300, 10000); i++ {
				cs = append(cs, genTagCases(&CheckCtx{Prop: "C07t", Tier: "quick", Seed: cx.Seed, R: cx.R.Fork(), Stats: cx.Stats})[:1]...)
			}
			// hint MAPS (ImportNames ranges over the caller's Go map): several keys that are
			// spellings of one path, each referenced in the body — whatever the code does with
			// them must not depend on the iteration order
			for i := 0; i < cx.N(150, 3000); i++ {
				r := cx.R.Fork()
				c := &Case{ID: fmt.Sprintf("C07-hintmap-%d-%d", cx.Seed, i)}
				c.Ops = append(c.Ops, Op{Kind: OpFile, F: 0, Str: []string{"new", "", "p"}})
				base := pick(r, []string{"a.com/d", "b.org/x/lib", "gopkg.in/yaml.v2", "net/http", "lib", "h0.com/d/v2"})
				spell := []string{base, base + "/", base + "//", strings.ToUpper(base[:1]) + base[1:], base + "/.", "./" + base, strings.ToUpper(base),
					// (the vendored copies of the path, as `go list` prints them)
					"vendor/" + base, "x.io/app/vendor/" + base, "x.io/app/vendor/y.io/lib/vendor/" + base, "golang.org/x/" + base, base + "/internal", "internal/" + base}
				r.Shuffle(len(spell), func(a, b int) { spell[a], spell[b] = spell[b], spell[a] })
				spell = spell[:2+r.Intn(4)]
				var kv [][2]string
				for k, sp := range spell {
					kv = append(kv, [2]string{sp, fmt.Sprintf("n%d%s", k, genIdent(r))})
				}
				c.Ops = append(c.Ops, Op{Kind: OpHintNames, F: 0, KV: kv})
				var args []Arg
				refs := append([]string{base}, spell...)
				for k, sp := range refs {
					if r.Chance(75) {
						args = append(args, st(Qual{Path: sp, Name: qName(k)}))
					}
				}
				c.Ops = append(c.Ops, Op{Kind: OpFAdd, F: 0, Args: []Arg{st(kw("Var"), id("v"), op("="), &Grp{Api: "Index", Args: nil}, kw("Any"), &Grp{Api: "Values", Args: args})}})
				c.Ops = append(c.Ops, Op{Kind: OpRender, F: 0})
				cs = append(cs, c)
			}
			for i := 0; i < cx.N(200, 5000); i++ {
				cs = append(cs, genFailThenRenderCase(cx, i, "C07"))
			}
			return cs
		},
		Oracle: oracleC07,
	}
	checks["C08"] = &PropCheck{
		Gen: func(cx *CheckCtx) []*Case {
			var cs []*Case
			for i := 0; i < cx.N(2000, 80000); i++ {
				cs = append(cs, genHistoryCase(cx, i))
			}
			for i := 0; i < cx.N(300, 8000); i++ {
				cs = append(cs, genCgoHistory(cx, i))
			}
			for i := 0; i < cx.N(300, 8000); i++ {
				cs = append(cs, genPlaceholderHistory(cx, i, "C08"))
			}
			return cs
		},
		Oracle: func(cx *CheckCtx, runs []*CaseRun) []Finding {
			return append(oracleC08(cx, runs), erasureOracle(cx, runs, "C08", cx.N(200, 3000))...)
		},
	}
	checks["C09"] = &PropCheck{
		Gen: func(cx *CheckCtx) []*Case {
			var cs []*Case
			for i := 0; i < cx.N(300, 8000); i++ {
				cs = append(cs, genSharedCase(cx, i))
			}
			cs = append(cs, fileCases(cx, cx.N(300, 4000), validGen, defaultFileCfg, 3)...)
			// jobs in which a File fails to render, among jobs that render Dicts
			for i := 0; i < cx.N(120, 3000); i++ {
				cs = append(cs, genFailThenRenderCase(cx, i, "C09"))
			}
			return cs
		},
		Oracle: oracleC09,
	}
	checks["C10"] = &PropCheck{
		Gen: func(cx *CheckCtx) []*Case {
			var cs []*Case
			for i := 0; i < cx.N(500, 12000); i++ {
				r := cx.R
				var c *Case
				switch i % 3 {
				case 0:
					c = genFileCase(cx, i, validGen, 1+r.Intn(2), defaultFileCfg, 1)
				case 1:
					c = genFileCase(cx, i, wildGen, 1+r.Intn(2), defaultFileCfg, 1)
				default:
					// fragment entry points
					c = genFileCase(cx, i, validGen, 1, defaultFileCfg, 0)
					c.Ops = append(c.Ops, Op{Kind: OpStmt, S: 900, Items: validGen(cx.R.Fork(), sanePool(cx.R, 2)).stmt(3).Items})
					if r.Bool() {
						c.Ops = append(c.Ops, Op{Kind: OpFrag, S: 900, F: 0})
					} else {
						c.Ops = append(c.Ops, Op{Kind: OpGFrag, F: 0, F2: 0})
					}
				}
				cs = append(cs, c)
			}
			// LARGE files (size thresholds: split writes, chunked copies, fast paths): bodies of
			// 35 KB, 70 KB and 140 KB, formatted and not; the oracle below fails the writer, saves, …
			for i, n := range []int{1400, 2800, 5500} {
				for _, nf := range []bool{true, false} {
					if cx.Tier != "thorough" && !nf && n > 1400 {
						continue // formatting 140 KB five times over is for the thorough tier
					}
					c := &Case{ID: fmt.Sprintf("C10-large-%d-%v-%d", n, nf, i)}
					c.Ops = append(c.Ops, Op{Kind: OpFile, F: 0, Str: []string{"new", "", "p"}})
					if nf {
						c.Ops = append(c.Ops, Op{Kind: OpSet, F: 0, Str: []string{"noformat", "1"}})
					}
					for k := 0; k < n; k++ {
						c.Ops = append(c.Ops, Op{Kind: OpFAdd, F: 0, Args: []Arg{st(kw("Func"), id(fmt.Sprintf("f%d", k)), &Grp{Api: "Params"}, &Grp{Api: "Block", Args: []Arg{st(id("x"), op(":="), mkLit(k))}})}})
					}
					c.Ops = append(c.Ops, Op{Kind: OpRender, F: 0})
					cs = append(cs, c)
				}
			}
			return cs
		},
		Oracle: oracleC10,
	}
	checks["C11"] = &PropCheck{Gen: func(cx *CheckCtx) []*Case { return append(genLitCases(cx), genLitSeqCases(cx)...) }, Oracle: oracleC11}
	checks["C12"] = &PropCheck{Gen: func(cx *CheckCtx) []*Case { return append(genStrCases(cx), genStrSeqCases(cx)...) }, Oracle: oracleC12}
	checks["C13"] = &PropCheck{
		Gen: func(cx *CheckCtx) []*Case {
			var cs []*Case
			for i := 0; i < cx.N(1500, 50000); i++ {
				base := genFileCase(cx, i, func(r *Rng, pool *PathPool) *TreeGen {
					g := validGen(r, pool)
					g.voids = false
					return g
				}, 1+cx.R.Intn(3), plainCfg, 1)
				cs = append(cs, base, injectVoids(base, cx.R.Fork(), 10+cx.R.Intn(30)))
			}
			// every variadic construct x arities 0..12 x one void at every position
			arities := []int{0, 1, 2, 3, 4, 5, 6, 17, 65, 513}
			if cx.Tier == "thorough" || cx.Escalate > 1 {
				arities = []int{0, 1, 2, 3, 4, 5, 6, 7, 8, 9, 10, 11, 12, 15, 16, 17, 31, 32, 33, 63, 64, 65, 127, 128, 129, 255, 256, 257, 511, 512, 513, 1025}
			}
			for _, api := range grpVariadic {
				for _, ar := range arities {
					var args []Arg
					for k := 0; k < ar; k++ {
						args = append(args, st(id(fmt.Sprintf("a%d", k))))
					}
					base := &Case{ID: fmt.Sprintf("C13-%s-%d", api, ar)}
					base.Ops = append(base.Ops, Op{Kind: OpFile, F: 0, Str: []string{"new", "", "p"}}, Op{Kind: OpSet, F: 0, Str: []string{"noformat", "1"}})
					base.Ops = append(base.Ops, Op{Kind: OpFAdd, F: 0, Args: []Arg{st(id("x"), &Grp{Api: api, Args: args})}}, Op{Kind: OpRender, F: 0})
					cs = append(cs, base, injectVoids(base, cx.R.Fork(), 50))
				}
			}
			// a null item that stops being null between two renders (the caller extends a held
			// statement): from then on it is one of "the remaining items"
			for i := 0; i < cx.N(300, 8000); i++ {
				cs = append(cs, genPlaceholderHistory(cx, i, "C13"))
			}
			return cs
		},
		Oracle: func(cx *CheckCtx, runs []*CaseRun) []Finding {
			fs := pairOracle(cx, runs, "C13", "injecting nil/Null()/empty items changed the output", func(a, b string) (bool, string) {
				if a == b {
					return true, ""
				}
				return false, "rendered bytes differ"
			})
			return append(fs, erasureOracle(cx, runs, "C13", cx.N(150, 3000))...)
		},
	}
	checks["C14"] = &PropCheck{
		Gen: func(cx *CheckCtx) []*Case {
			cs := fileCases(cx, cx.N(1200, 50000), validGen, defaultFileCfg, 3)
			cs = append(cs, fileCases(cx, cx.N(600, 30000), wildGen, defaultFileCfg, 3)...)
			for i, c := range cs {
				cs[i] = withFrags(c, cx.R)
			}
			// the Group form with an EMPTY argument list, extended afterwards through the
			// returned statement (g.Add() / g.List() / g.Call() … then chained calls)
			for i := 0; i < cx.N(300, 5000); i++ {
				r := cx.R.Fork()
				g := validGen(r, sanePool(r, 2))
				g.comments = false
				d := g.decl(3)
				first := pick(r, []SItem{&AddItems{}, &Grp{Api: "List"}, &AddItems{}, &Grp{Api: "Union"}})
				c := &Case{ID: fmt.Sprintf("C14-emptyform-%d-%d", cx.Seed, i)}
				c.Ops = append(c.Ops, Op{Kind: OpFile, F: 0, Str: []string{"new", "", "p"}})
				c.Ops = append(c.Ops, Op{Kind: OpFNew, S: 1, F: 0, Items: []SItem{first}}, Op{Kind: OpApp, S: 1, Items: d.Items}, Op{Kind: OpRender, F: 0})
				cs = append(cs, c)
				// the Group form of Add applied to ONE existing statement: the result is a NEW
				// statement; extending it must not touch the argument, which is observed afterwards
				c2 := &Case{ID: fmt.Sprintf("C14-addone-%d-%d", cx.Seed, i)}
				c2.Ops = append(c2.Ops, Op{Kind: OpFile, F: 0, Str: []string{"new", "", "p"}})
				x := g.expr(2)
				c2.Ops = append(c2.Ops, Op{Kind: OpStmt, S: 1, Items: x.Items})
				c2.Ops = append(c2.Ops, Op{Kind: OpFNew, S: 2, F: 0, Items: []SItem{&AddItems{Args: []Arg{Ref{Reg: 1}}}}})
				c2.Ops = append(c2.Ops, Op{Kind: OpApp, S: 2, Items: []SItem{&Grp{Api: "Call"}}})
				c2.Ops = append(c2.Ops, Op{Kind: OpFNew, S: 3, F: 0, Items: []SItem{&AddItems{Args: []Arg{Ref{Reg: 1}}}}})
				c2.Ops = append(c2.Ops, Op{Kind: OpApp, S: 3, Items: []SItem{&Grp{Api: "Index", Args: []Arg{st(mkLit(0))}}}})
				c2.Ops = append(c2.Ops, Op{Kind: OpFrag, S: 1, F: 0}, Op{Kind: OpRender, F: 0}, Op{Kind: OpFrag, S: 2, F: 0})
				cs = append(cs, c2)
			}
			// re-entrant callbacks: while the callback of an inner ...Func construct runs (i.e.
			// while the Group form g.XFunc(cb) is still building its statement), it adds an item
			// to the ENCLOSING group; the Group form appends its statement only after building it,
			// so the hoisted item comes first — for every construct with a Func variant
			{
				var apis []string
				for name, kind := range genConstructs {
					if kind == "callback" {
						apis = append(apis, strings.TrimSuffix(name, "Func"))
					}
				}
				sort.Strings(apis)
				for i := 0; i < cx.N(len(apis), 20*len(apis)); i++ {
					r := cx.R.Fork()
					api := apis[i%len(apis)]
					inner := &GrpFunc{Api: api, Items: []FuncItem{{Wrapped: true, A: st(id("x"))}, {Wrapped: false, A: st(id("y"), &Grp{Api: "Call"})}}}
					outerApi := pick(r, []string{"Block", "Block", "Defs", "List", "Call", "Values"})
					items := []FuncItem{{Wrapped: true, A: st(id("before"))},
						{Wrapped: true, Hoist: true, A: st(id("hoisted"), op(":="), mkLit(i))},
						{Wrapped: false, A: st(inner, &Grp{Api: "Block"})},
						{Wrapped: r.Bool(), A: st(id("after"))}}
					if r.Chance(30) {
						items = append(items[:2], append([]FuncItem{{Wrapped: true, Hoist: true, A: st(id("hoisted2"))}}, items[2:]...)...)
					}
					c := &Case{ID: fmt.Sprintf("C14-reentrant-%s-%d-%d", api, cx.Seed, i)}
					c.Ops = append(c.Ops, Op{Kind: OpFile, F: 0, Str: []string{"new", "", "p"}}, Op{Kind: OpSet, F: 0, Str: []string{"noformat", "1"}})
					c.Ops = append(c.Ops, Op{Kind: OpFAdd, F: 0, Args: []Arg{st(kw("Func"), id("f"), &Grp{Api: "Params"}, &GrpFunc{Api: outerApi, Items: items})}})
					c.Ops = append(c.Ops, Op{Kind: OpRender, F: 0})
					cs = append(cs, c)
				}
			}
			return cs
		},
		Oracle: oracleC14,
	}
	checks["C15"] = &PropCheck{
		Gen: func(cx *CheckCtx) []*Case {
			var cs []*Case
			cfg := plainCfg
			for i := 0; i < cx.N(1500, 50000); i++ {
				base := genFileCase(cx, i, func(r *Rng, pool *PathPool) *TreeGen {
					g := validGen(r, sanePool(r, 2+r.Intn(3)))
					g.voids, g.comments = false, false
					return g
				}, 1+cx.R.Intn(3), cfg, 1)
				base = dropInsane(base)
				cs = append(cs, base, injectComments(base, cx.R.Fork(), 15+cx.R.Intn(30)))
			}
			// file-level comments
			fcfg := defaultFileCfg
			fcfg.commentPct = 100
			for i := 0; i < cx.N(500, 20000); i++ {
				c := genFileCase(cx, 700000+i, func(r *Rng, pool *PathPool) *TreeGen {
					g := validGen(r, sanePool(r, 2))
					g.comments = false
					return g
				}, 1, fcfg, 1)
				cs = append(cs, dropSaneCanonical(c))
			}
			for i := 0; i < cx.N(300, 8000); i++ {
				cs = append(cs, genFileLevelHistory(cx, i))
			}
			return cs
		},
		Oracle: func(cx *CheckCtx, runs []*CaseRun) []Finding {
			return append(oracleC15(cx, runs), erasureOracle(cx, runs, "C15", cx.N(100, 2000))...)
		},
	}
	checks["C16"] = &PropCheck{
		Gen: func(cx *CheckCtx) []*Case {
			var cs []*Case
			for i := 0; i < cx.N(3000, 100000); i++ {
				cs = append(cs, genDictCase(cx, i, cx.R.Chance(30)))
			}
			return cs
		},
		Oracle: oracleC16,
	}
	checks["C17"] = &PropCheck{Gen: genTagCases, Oracle: oracleC17}
	checks["C20"] = &PropCheck{
		Gen: func(cx *CheckCtx) []*Case {
			var cs []*Case
			for i := 0; i < cx.N(1500, 100000); i++ {
				cs = append(cs, genCloneCase(cx, i))
			}
			return cs
		},
		Oracle: oracleC20,
	}
}

// canonical paths must be sane import paths for the parse-based oracle
func dropSaneCanonical(c *Case) *Case { return dropInsane(c) }

// genHistoryCase: interleavings of additions, hints, file renders and fragment renders
func genHistoryCase(cx *CheckCtx, i int) *Case {
	r := cx.R.Fork()
	pool := sanePool(r, 3+r.Intn(5))
	if r.Chance(30) {
		pool = collidingPool(r, 3+r.Intn(4))
	}
	if r.Chance(30) {
		pool.Paths = append(pool.Paths, "C")
	}
	c := &Case{ID: fmt.Sprintf("C08-%d-%d", cx.Seed, i)}
	cfg := defaultFileCfg
	cfg.commentPct, cfg.anonPct = 0, 10
	c.Ops = append(c.Ops, genFileSetup(r, 0, pool, cfg)...)
	g := validGen(r, pool)
	g.dicts = r.Chance(30)
	g.comments = false
	reg := 0
	steps := 3 + r.Intn(cx.N(10, 28))
	var regs []int
	for s := 0; s < steps; s++ {
		switch r.Intn(10) {
		case 0, 1, 2:
			ops := addToFile(r, 0, g.decl(2+r.Intn(2)), &reg)
			for _, o := range ops {
				if o.Kind == OpStmt || o.Kind == OpFNew {
					regs = append(regs, o.S)
				}
			}
			c.Ops = append(c.Ops, ops...)
		case 3:
			// a statement with case blocks, possibly with nil bodies
			reg++
			regs = append(regs, reg)
			body := []Arg{st(g.qual(), &Grp{Api: "Call"})}
			if r.Bool() {
				body = []Arg{Nil{}}
			}
			if r.Chance(30) {
				body = nil
			}
			c.Ops = append(c.Ops, Op{Kind: OpStmt, S: reg, Items: []SItem{&Grp{Api: "Switch", Args: []Arg{st(id("x"))}}, &Grp{Api: "Block", Args: []Arg{
				st(&Grp{Api: "Case", Args: []Arg{st(mkLit(1))}}, &Grp{Api: "Block", Args: body}),
				st(kw("Default"), &Grp{Api: "Block", Args: body})}}}})
			c.Ops = append(c.Ops, Op{Kind: OpFAdd, F: 0, Args: []Arg{st(kw("Func"), id(fmt.Sprintf("g%d", reg)), &Grp{Api: "Params"}, &Grp{Api: "Block", Args: []Arg{Ref{Reg: reg}}})}})
		case 4:
			if r.Chance(30) {
				// a cgo preamble added between renders
				c.Ops = append(c.Ops, Op{Kind: OpCgo, F: 0, Str: []string{"#include <x.h>"}})
				break
			}
			p := pick(r, pool.Paths)
			c.Ops = append(c.Ops, Op{Kind: OpHintName, F: 0, Str: []string{p, genHintName(r)}})
		case 5:
			p := pick(r, pool.Paths)
			a := genHintName(r)
			if r.Chance(40) {
				a = "."
			}
			c.Ops = append(c.Ops, Op{Kind: OpHintAlias, F: 0, Str: []string{p, a}})
		case 7:
			// settings changed between renders, and statements shared between two places
			switch r.Intn(5) {
			case 0:
				c.Ops = append(c.Ops, Op{Kind: OpSet, F: 0, Str: []string{"prefix", pick(r, []string{"pkg", "q", ""})}})
			case 1:
				c.Ops = append(c.Ops, Op{Kind: OpSet, F: 0, Str: []string{"canonical", pick(r, []string{"a.com/canon", ""})}})
			case 2:
				c.Ops = append(c.Ops, Op{Kind: OpPkgComment, F: 0, Str: []string{"about the package"}})
			case 3:
				c.Ops = append(c.Ops, Op{Kind: OpHeader, F: 0, Str: []string{"generated"}})
			default:
				if len(regs) > 0 {
					// the same statement pointer added to the file a second time
					c.Ops = append(c.Ops, Op{Kind: OpFAdd, F: 0, Args: []Arg{st(kw("Var"), id("_"), op("="), &AddItems{Args: []Arg{Ref{Reg: pick(r, regs)}}})}})
				}
			}
		case 6:
			if len(regs) > 0 {
				c.Ops = append(c.Ops, Op{Kind: OpFrag, S: pick(r, regs), F: 0})
				if r.Bool() {
					c.Ops = append(c.Ops, Op{Kind: OpFrag, S: c.Ops[len(c.Ops)-1].S, F: 0})
				}
			}
		default:
			c.Ops = append(c.Ops, Op{Kind: OpRender, F: 0})
			if r.Chance(60) {
				c.Ops = append(c.Ops, Op{Kind: OpRender, F: 0})
			}
		}
	}
	c.Ops = append(c.Ops, Op{Kind: OpRender, F: 0}, Op{Kind: OpRender, F: 0})
	return dropInsane(c)
}
