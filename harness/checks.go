package main

import "fmt"

// generic whole-file case: setup, body of declarations, one or more renders
func genFileCase(cx *CheckCtx, i int, tg func(r *Rng, pool *PathPool) *TreeGen, nDecl int, cfg FileCfg, renders int) *Case {
	r := cx.R.Fork()
	pool := genPool(r, 2+r.Intn(6))
	c := &Case{ID: fmt.Sprintf("%s-%d-%d", cx.Prop, cx.Seed, i)}
	c.Ops = append(c.Ops, genFileSetup(r, 0, pool, cfg)...)
	g := tg(r, pool)
	reg := 0
	for d := 0; d < nDecl; d++ {
		var s *Stmt
		if g.wild {
			a := g.wildArg(4)
			if ws, ok := a.(*Stmt); ok {
				s = ws
			} else {
				// a void or a Dict at top level: add it as an argument of File.Add
				c.Ops = append(c.Ops, Op{Kind: OpFAdd, F: 0, Args: []Arg{a}})
				continue
			}
		} else {
			s = g.decl(3 + r.Intn(3))
		}
		c.Ops = append(c.Ops, addToFile(r, 0, s, &reg)...)
	}
	for k := 0; k < renders; k++ {
		c.Ops = append(c.Ops, Op{Kind: OpRender, F: 0})
	}
	return c
}

func validGen(r *Rng, pool *PathPool) *TreeGen {
	return &TreeGen{r: r, pool: pool, budget: 40 + r.Intn(160), maxArity: 12, voids: r.Chance(50), dicts: true, comments: r.Chance(40)}
}

func wildGen(r *Rng, pool *PathPool) *TreeGen {
	return &TreeGen{r: r, pool: pool, budget: 10 + r.Intn(60), maxArity: 6, wild: true, voids: true, dicts: true, comments: true}
}

func registerChecks() {
	checks["C02"] = &PropCheck{
		Gen: func(cx *CheckCtx) []*Case {
			var cs []*Case
			n := cx.N(3000, 200000)
			for i := 0; i < n; i++ {
				r := cx.R
				if i%3 == 0 {
					cs = append(cs, genFileCase(cx, i, validGen, 1+r.Intn(3), defaultFileCfg, 1))
				} else {
					c := genFileCase(cx, i, wildGen, 1+r.Intn(3), defaultFileCfg, 1)
					cs = append(cs, c)
				}
			}
			return cs
		},
	}
}
