package main

// Fresh-process runs: the reference for "a File's output depends only on its own contents and
// settings" (C09) is the job run ALONE in a process that has done nothing else.  Re-running a
// job inside the checking process cannot serve as that reference: process-wide state (a memo, a
// lazily filled table) has already been set by whichever job came first.

import (
	"bytes"
	"encoding/json"
	"fmt"
	"io"
	"os"
	"os/exec"
	"strconv"
	"strings"
	"sync"
)

type seqResult struct {
	Obs []RenderObs `json:"obs"`
	BP  string      `json:"bp"`
}

// cmdRunSeq: stdin = recipe text of one or more cases; they are run in order in this process and
// the observations of the LAST one are printed as JSON.
func cmdRunSeq(args []string) int {
	seed := uint64(1)
	if len(args) > 0 {
		seed, _ = strconv.ParseUint(args[0], 10, 64)
	}
	b, _ := io.ReadAll(os.Stdin)
	cs, err := ParseCases(string(b))
	if err != nil || len(cs) == 0 {
		fmt.Fprintln(os.Stderr, "runseq: cannot parse:", err)
		return 2
	}
	var res seqResult
	for i, c := range cs {
		s := uint64(i)*7919 + 1
		if i == len(cs)-1 {
			s = seed
		}
		res.Obs, res.BP = RunReal(c, &FormChooser{r: NewRng(s), Fixed: -1}, false)
	}
	json.NewEncoder(os.Stdout).Encode(res)
	return 0
}

func runFresh(prefix []*Case, c *Case, seed uint64) (seqResult, error) {
	var in strings.Builder
	for _, p := range prefix {
		in.WriteString(p.Text())
	}
	in.WriteString(c.Text())
	exe, err := os.Executable()
	if err != nil {
		return seqResult{}, err
	}
	cmd := exec.Command(exe, "runseq", strconv.FormatUint(seed, 10))
	cmd.Stdin = strings.NewReader(in.String())
	var out bytes.Buffer
	cmd.Stdout = &out
	if err := cmd.Run(); err != nil {
		return seqResult{}, err
	}
	var res seqResult
	if err := json.Unmarshal(out.Bytes(), &res); err != nil {
		return seqResult{}, err
	}
	return res, nil
}

func sameObs(a, b []RenderObs) bool {
	if len(a) != len(b) {
		return false
	}
	for i := range a {
		if a[i].Class != b[i].Class || a[i].Out != b[i].Out {
			return false
		}
	}
	return true
}

func obsText(o []RenderObs) string {
	var b strings.Builder
	for _, x := range o {
		b.WriteString(x.Class + " " + x.Out + x.Err + "\n")
	}
	return b.String()
}

// soloInterference: sampled jobs are run alone in a fresh process and compared with what they
// rendered inside the crowded checking process (`crowd`).  On a difference the set of other jobs
// is bisected (each probe is a fresh process) down to one culprit where possible.
func soloInterference(cx *CheckCtx, runs []*CaseRun, crowd func(i int) []RenderObs, sample []int) []Finding {
	var fs []Finding
	// the solo runs, 16 fresh processes at a time
	type soloRes struct {
		r   seqResult
		err error
	}
	solos := make([]soloRes, len(sample))
	var wg sync.WaitGroup
	sem := make(chan struct{}, 16)
	for k, i := range sample {
		wg.Add(1)
		sem <- struct{}{}
		go func(k, i int) {
			defer wg.Done()
			defer func() { <-sem }()
			solos[k].r, solos[k].err = runFresh(nil, runs[i].Case, uint64(i)*7919+1)
		}(k, i)
	}
	wg.Wait()
	for k, i := range sample {
		c := runs[i].Case
		if dictRegistersInMapOrder(c) || hasEqualKeyTexts(c) {
			continue // known finding D7: output varies from build to build on its own
		}
		seed := uint64(i)*7919 + 1
		solo, err := solos[k].r, solos[k].err
		if err != nil {
			cx.note(fmt.Sprintf("fresh process failed for %s: %v", c.ID, err))
			continue
		}
		cx.Stats.OracleCases++
		in := crowd(i)
		if solo.BP != "" || sameObs(solo.Obs, in) {
			continue
		}
		// culprit search
		var others []*Case
		for j, r := range runs {
			if j != i && r.BuildPanic == "" {
				others = append(others, r.Case)
			}
		}
		differs := func(prefix []*Case) bool {
			r, err := runFresh(prefix, c, seed)
			return err == nil && !sameObs(r.Obs, solo.Obs)
		}
		set := others
		found := differs(set)
		for found && len(set) > 1 {
			a, b := set[:len(set)/2], set[len(set)/2:]
			if differs(a) {
				set = a
			} else if differs(b) {
				set = b
			} else {
				break
			}
		}
		f := Finding{Property: "C09", Shape: "output-depends-on-process-history",
			Expected: trunc(obsText(solo.Obs)), Observed: trunc(obsText(in))}
		if found && len(set) <= 4 {
			var t strings.Builder
			for _, p := range set {
				t.WriteString(p.Text())
			}
			t.WriteString(c.Text())
			f.Case, f.Sequence = t.String(), true
			f.What = fmt.Sprintf("the last job renders differently when the %d job(s) before it ran earlier in the same process than it does alone in a fresh process", len(set))
		} else {
			f.Case = c.Text()
			f.What = fmt.Sprintf("job renders differently inside the checking process (after/among %d other jobs) than alone in a fresh process; no small set of culprit jobs isolated", len(others))
		}
		fs = append(fs, f)
		if len(fs) >= 3 {
			break
		}
	}
	return fs
}

func replaySequence(text string) int {
	cs, err := ParseCases(text)
	if err != nil || len(cs) == 0 {
		fmt.Fprintln(os.Stderr, "cannot parse recipe:", err)
		return 2
	}
	last := cs[len(cs)-1]
	solo, err1 := runFresh(nil, last, 1)
	seq, err2 := runFresh(cs[:len(cs)-1], last, 1)
	if err1 != nil || err2 != nil {
		fmt.Fprintln(os.Stderr, "fresh process failed:", err1, err2)
		return 2
	}
	fmt.Print(text)
	fmt.Printf("--- last job alone in a fresh process:\n%s--- last job after the other %d job(s) in one fresh process:\n%s", obsText(solo.Obs), len(cs)-1, obsText(seq.Obs))
	if sameObs(solo.Obs, seq.Obs) {
		fmt.Println("SAME")
	} else {
		fmt.Println("DIFFERENT")
	}
	return 0
}
