package main

import (
	"regexp"
	"bytes"
	"fmt"
	"go/ast"
	"go/format"
	"go/parser"
	"go/scanner"
	"go/token"
	"strings"
	"unicode"

	"github.com/dave/jennifer/jen"
)

func panicShape(msg string) string {
	switch {
	case strings.Contains(msg, "nil pointer dereference"):
		return "nil-item-dereference"
	case strings.Contains(msg, "Error in Values"):
		return "values-dict-panic"
	}
	return "panic:" + trunc(msg)
}

// ---------------------------------------------------------------- C02

func oracleC02(cx *CheckCtx, runs []*CaseRun) []Finding {
	var fs []Finding
	for _, cr := range runs {
		cx.Stats.OracleCases++
		if cr.BuildPanic != "" {
			fs = append(fs, Finding{Property: "C02", Shape: "build-" + panicShape(cr.BuildPanic), What: "panic while building: " + cr.BuildPanic, Case: cr.Case.Text()})
			continue
		}
		var twin []RenderObs
		ops := renderOps(cr.Case)
		nf := noFormatAt(cr.Case)
		for i, obs := range cr.Real {
			switch obs.Class {
			case "panic":
				fs = append(fs, Finding{Property: "C02", Shape: panicShape(obs.Err), What: "render panics instead of returning an error: " + trunc(obs.Err), Case: cr.Case.Text()})
			case "ok":
				if ops[i].Kind == OpRender && !nf[i] {
					fset := token.NewFileSet()
					if _, err := parser.ParseFile(fset, "", obs.Out, 0); err != nil {
						shape, what := "emitted-invalid", "File.Render returned nil but the output does not parse: "+err.Error()
						// whose doing?  If the unformatted source of the identically built file parses and
						// Render's output is exactly what go/format makes of it, the formatter turned
						// valid source into invalid source.
						if twin == nil {
							twin, _ = RunReal(cr.Case, &FormChooser{Fixed: 1, r: NewRng(1)}, true)
						}
						if i < len(twin) && twin[i].Class == "ok" {
							if rawAst, perr := parser.ParseFile(token.NewFileSet(), "", twin[i].Out, 0); perr == nil {
								if want, ferr := format.Source([]byte(twin[i].Out)); ferr == nil && string(want) == obs.Out {
									shape = "formatter-output-invalid"
									parenFuncType := false
									ast.Inspect(rawAst, func(n ast.Node) bool {
										if pe, ok := n.(*ast.ParenExpr); ok {
											if _, ft := pe.X.(*ast.FuncType); ft {
												parenFuncType = true
											}
										}
										return true
									})
									if parenFuncType {
										shape = "gofmt-drops-parens-around-func-type"
									}
									what = "the unformatted source parses, go/format accepts it, and go/format's output (which Render wrote) does not parse: " + err.Error()
								}
							}
						}
						fs = append(fs, Finding{Property: "C02", Shape: shape, What: what, Case: cr.Case.Text(), Observed: trunc(obs.Out)})
						continue
					}
					if twin == nil {
						twin, _ = RunReal(cr.Case, &FormChooser{Fixed: 1, r: NewRng(1)}, true)
					}
					if i < len(twin) && twin[i].Class == "ok" {
						want, err := format.Source([]byte(twin[i].Out))
						if err != nil || string(want) != obs.Out {
							fs = append(fs, Finding{Property: "C02", Shape: "not-gofmt-of-raw", What: "formatted output differs from gofmt(NoFormat output of an identically built file)", Case: cr.Case.Text(), Expected: trunc(string(want)), Observed: trunc(obs.Out)})
						}
					} else if i < len(twin) {
						fs = append(fs, Finding{Property: "C02", Shape: "twin-outcome", What: "NoFormat twin did not render although the formatted file did: " + twin[i].Class, Case: cr.Case.Text()})
					}
				} else if ops[i].Kind != OpRender {
					// fragment: must be accepted by the formatter again (parses as decls/stmts)
					if err := parsesAsFragment(obs.Out); err != nil {
						fs = append(fs, Finding{Property: "C02", Shape: "fragment-invalid", What: "fragment render returned nil but output is not valid: " + err.Error(), Case: cr.Case.Text(), Observed: trunc(obs.Out)})
					}
				}
			}
		}
	}
	return fs
}

// parsesAsFragment: the property's wording — "the bytes parse as Go declarations or statements".
// (go/format.Source is NOT the judge: it only falls back to a statement list when the declaration
// attempt fails with "expected declaration", so it rejects some of its own outputs, e.g. the
// expression statement `func(r *T)`.)
func parsesAsFragment(src string) error {
	fset := token.NewFileSet()
	_, err := parser.ParseFile(fset, "", "package p;"+src, 0)
	if err == nil {
		return nil
	}
	if _, err2 := parser.ParseFile(fset, "", "package p; func _() {"+src+"\n}", 0); err2 == nil {
		return nil
	}
	return err
}

// fragment renders of every statement register as well
func withFrags(c *Case, r *Rng) *Case {
	n := &Case{ID: c.ID}
	for _, o := range c.Ops {
		n.Ops = append(n.Ops, o)
		if (o.Kind == OpStmt || o.Kind == OpFNew) && r.Chance(40) {
			n.Ops = append(n.Ops, Op{Kind: OpFrag, S: o.S, F: 0})
		}
	}
	if r.Chance(20) {
		n.Ops = append(n.Ops, Op{Kind: OpGFrag, F: 0, F2: 0})
	}
	return n
}

// damage: one random edit of a valid program
func damage(c *Case, r *Rng) *Case {
	count := 0
	walkCase(c, &termVisitor{item: func(SItem) { count++ }})
	if count == 0 {
		return c
	}
	target := r.Intn(count)
	k := 0
	rw := &rewriter{items: func(items []SItem) []SItem { return items }}
	rw.items = func(items []SItem) []SItem {
		out := make([]SItem, 0, len(items))
		for _, it := range items {
			if k == target {
				switch r.Intn(4) {
				case 0: // drop
				case 1:
					out = append(out, it, it)
				case 2:
					out = append(out, op(pick(r, []string{")", "{", ";;", ":=", "...", "default"})), it)
				default:
					out = append(out, kw(pick(r, tokNoArg)))
				}
			} else {
				out = append(out, it)
			}
			k++
		}
		return out
	}
	return rw.rewriteCase(c, c.ID+"-dmg")
}

// ---------------------------------------------------------------- C13: void injection

func injectVoids(c *Case, r *Rng, pct int) *Case {
	g := &TreeGen{r: r}
	rw := &rewriter{args: func(api string, args []Arg) []Arg {
		if ar, ok := genConstructs[api]; ok && strings.HasPrefix(ar, "fixed") {
			return args
		}
		if api == "File" || api == "Add" || api == "Custom" {
			// File.Add(a, b) and Add(a, b) build ONE statement from their arguments: that is
			// a statement, not a list construct
			return args
		}
		// (Values holding a Dict included: nil and null items are not "other items" beside the
		// Dict — D15)
		var out []Arg
		for _, a := range args {
			for r.Chance(pct) {
				out = append(out, g.void())
			}
			out = append(out, a)
		}
		for r.Chance(pct) {
			out = append(out, g.void())
		}
		return out
	}}
	n := rw.rewriteCase(c, c.ID+"-inj")
	// file level: void items of their own between the File's items
	var ops []Op
	for _, o := range n.Ops {
		if (o.Kind == OpFAdd || o.Kind == OpFNew || o.Kind == OpRender) && r.Chance(pct) {
			ops = append(ops, Op{Kind: OpFAdd, F: o.F, Args: []Arg{g.void()}})
		}
		ops = append(ops, o)
	}
	n.Ops = ops
	return n
}

func pairOracle(cx *CheckCtx, runs []*CaseRun, prop, what string, same func(a, b string) (bool, string)) []Finding {
	var fs []Finding
	byID := map[string]*CaseRun{}
	for _, cr := range runs {
		byID[cr.Case.ID] = cr
	}
	for _, cr := range runs {
		base, ok := byID[strings.TrimSuffix(cr.Case.ID, "-inj")]
		if !ok || base == cr || !strings.HasSuffix(cr.Case.ID, "-inj") {
			continue
		}
		cx.Stats.OracleCases++
		if cr.BuildPanic != "" {
			fs = append(fs, Finding{Property: prop, Shape: "build-" + panicShape(cr.BuildPanic), What: "panic while building: " + cr.BuildPanic, Case: cr.Case.Text()})
			continue
		}
		for i := range base.Real {
			if i >= len(cr.Real) {
				break
			}
			a, b := base.Real[i], cr.Real[i]
			if b.Class == "panic" && a.Class != "panic" {
				fs = append(fs, Finding{Property: prop, Shape: panicShape(b.Err), What: what + ": render panics: " + trunc(b.Err), Case: cr.Case.Text()})
				break
			}
			if a.Class != b.Class {
				fs = append(fs, Finding{Property: prop, Shape: "outcome-changed", What: fmt.Sprintf("%s: outcome %s became %s", what, a.Class, b.Class), Case: cr.Case.Text(), Expected: trunc(a.Out + a.Err), Observed: trunc(b.Out + b.Err)})
				break
			}
			if a.Class == "ok" {
				if ok, why := same(a.Out, b.Out); !ok {
					fs = append(fs, Finding{Property: prop, Shape: "output-changed", What: what + ": " + why, Case: cr.Case.Text(), Expected: trunc(a.Out), Observed: trunc(b.Out)})
					break
				}
			}
		}
	}
	return fs
}

// ---------------------------------------------------------------- C15: comments

func injectComments(c *Case, r *Rng, pct int) *Case {
	g := &TreeGen{r: r}
	multi := map[string]bool{"Block": true, "Defs": true, "Struct": true, "Interface": true}
	// (not inside Dict pairs: a Dict sorts its pairs by the rendered key text, comments included,
	// so a comment inside a key moves the pair — that is C16's ordering, not a leak of the comment)
	rw := &rewriter{keepDicts: true, args: func(api string, args []Arg) []Arg {
		if !multi[api] {
			return args
		}
		var out []Arg
		for _, a := range args {
			if r.Chance(pct) {
				out = append(out, st(g.comment()))
			}
			if s, ok := a.(*Stmt); ok && len(s.Items) > 0 && r.Chance(pct) {
				// at the end of an item -- but never directly between Case/Default and its
				// Block, and never after an item that already ends in a comment
				endsInCaseBlock := false
				if n := len(s.Items); n >= 2 {
					if b, ok := s.Items[n-1].(*Grp); ok && b.Api == "Block" {
						switch p := s.Items[n-2].(type) {
						case *Grp:
							endsInCaseBlock = p.Api == "Case"
						case *GrpFunc:
							endsInCaseBlock = p.Api == "Case"
						case Tok:
							endsInCaseBlock = p.Api == "Default"
						}
					}
					if b, ok := s.Items[n-1].(*GrpFunc); ok && b.Api == "Block" {
						endsInCaseBlock = true
					}
				}
				if _, isC := s.Items[len(s.Items)-1].(Comment); !isC && !endsInCaseBlock {
					a = &Stmt{Items: append(append([]SItem{}, s.Items...), g.comment())}
				}
			}
			out = append(out, a)
		}
		if r.Chance(pct) {
			out = append(out, st(g.comment()))
		}
		return out
	}}
	n := rw.rewriteCase(c, c.ID+"-inj")
	// file level: comments as items of their own between the File's items
	var ops []Op
	for _, o := range n.Ops {
		if (o.Kind == OpFAdd || o.Kind == OpFNew || o.Kind == OpRender) && r.Chance(pct) {
			ops = append(ops, Op{Kind: OpFAdd, F: o.F, Args: []Arg{st(g.comment())}})
		}
		ops = append(ops, o)
	}
	n.Ops = ops
	return n
}

type tokLit struct {
	tok token.Token
	lit string
}

func codeTokens(src string) ([]tokLit, []string, error) {
	var s scanner.Scanner
	fset := token.NewFileSet()
	file := fset.AddFile("", fset.Base(), len(src))
	var errs []string
	s.Init(file, []byte(src), func(pos token.Position, msg string) { errs = append(errs, msg) }, scanner.ScanComments)
	var toks []tokLit
	var comments []string
	for {
		_, tok, lit := s.Scan()
		if tok == token.EOF {
			break
		}
		if tok == token.COMMENT {
			comments = append(comments, lit)
			continue
		}
		if tok == token.SEMICOLON {
			lit = ";" // automatic vs explicit
		}
		toks = append(toks, tokLit{tok, lit})
	}
	if len(errs) > 0 {
		return toks, comments, fmt.Errorf("%s", errs[0])
	}
	return toks, comments, nil
}

func sameCodeTokens(a, b string) (bool, string) {
	ta, _, ea := codeTokens(a)
	tb, _, eb := codeTokens(b)
	if ea != nil || eb != nil {
		return false, fmt.Sprintf("scanner error: %v %v", ea, eb)
	}
	// drop redundant semicolons before '}' / ')' that comment placement may add or remove
	norm := func(ts []tokLit) []tokLit {
		var out []tokLit
		for i, t := range ts {
			if t.tok == token.SEMICOLON && (i+1 == len(ts) || ts[i+1].tok == token.RBRACE || ts[i+1].tok == token.RPAREN || ts[i+1].tok == token.SEMICOLON) {
				continue
			}
			out = append(out, t)
		}
		return out
	}
	ta, tb = norm(ta), norm(tb)
	if len(ta) != len(tb) {
		return false, fmt.Sprintf("code token count %d vs %d", len(ta), len(tb))
	}
	for i := range ta {
		if ta[i] != tb[i] {
			return false, fmt.Sprintf("code token %d differs: %v %q vs %v %q", i, ta[i].tok, ta[i].lit, tb[i].tok, tb[i].lit)
		}
	}
	return true, ""
}

func commentTexts(c *Case) []string {
	var out []string
	walkCase(c, &termVisitor{item: func(it SItem) {
		if m, ok := it.(Comment); ok {
			out = append(out, m.Text)
		}
	}})
	return out
}

func oracleC15(cx *CheckCtx, runs []*CaseRun) []Finding {
	fs := pairOracle(cx, runs, "C15", "adding comments changed the code", sameCodeTokens)
	for _, cr := range runs {
		if len(cr.Real) == 0 || cr.Real[0].Class != "ok" {
			continue
		}
		out := cr.Real[0].Out
		if strings.HasSuffix(cr.Case.ID, "-inj") && !hasNullDictSide(cr.Case) {
			_, comments, err := codeTokens(out)
			if err == nil {
				squash := func(x string) string {
					return strings.Map(func(r rune) rune {
						if r <= ' ' || r == 0x7f || unicode.IsSpace(r) {
							return -1
						}
						return r
					}, x)
				}
				for _, t := range commentTexts(cr.Case) {
					want := squash(t)
					if want == "" || listMarkerRe.MatchString(t) {
						// (gofmt rewrites the bullet of an indented list item in a comment to "-")
						continue
					}
					style := "//"
					if strings.Contains(t, "\n") {
						style = "/*"
					}
					found, foundStyle := false, false
					for _, cm := range comments {
						if strings.Contains(squash(cm), want) {
							found = true
							if strings.HasPrefix(cm, style) {
								foundStyle = true
							}
						}
					}
					if !found {
						fs = append(fs, Finding{Property: "C15", Shape: "comment-text-lost", What: fmt.Sprintf("comment text %q not found in any comment of the output", t), Case: cr.Case.Text(), Observed: trunc(out)})
					} else if !foundStyle {
						fs = append(fs, Finding{Property: "C15", Shape: "comment-style", What: fmt.Sprintf("comment text %q not rendered in %s style", t, style), Case: cr.Case.Text(), Observed: trunc(out)})
					}
				}
			}
		}
		// file-level layout, for EVERY File.Render of the recipe with the settings as they stand
		// at that point (comments and CanonicalPath may be set between renders)
		var headers, pkgc []string
		canonical := ""
		everCanonical := false
		ri := -1
		for _, o := range cr.Case.Ops {
			switch o.Kind {
			case OpHeader:
				headers = append(headers, o.Str[0])
			case OpPkgComment:
				pkgc = append(pkgc, o.Str[0])
			case OpSet:
				if o.Str[0] == "canonical" {
					canonical = o.Str[1]
					if canonical != "" {
						everCanonical = true
					}
				}
			}
			if !o.IsRender() {
				continue
			}
			ri++
			if ri >= len(cr.Real) {
				break
			}
			if o.Kind != OpRender || cr.Real[ri].Class != "ok" {
				continue
			}
			if canonical == "" && everCanonical && staleAnnotationRe.MatchString(cr.Real[ri].Out) {
				fs = append(fs, Finding{Property: "C15", Shape: "canonical-annotation-stale", What: fmt.Sprintf("render #%d: CanonicalPath is empty at this point but the package clause still carries an import annotation", ri+1), Case: cr.Case.Text(), Observed: trunc(cr.Real[ri].Out)})
			}
			if len(headers) == 0 && len(pkgc) == 0 && canonical == "" {
				continue
			}
			fs = append(fs, fileLevelComments(cx, cr, ri, cr.Real[ri].Out, headers, pkgc, canonical)...)
		}
	}
	return fs
}

func containsAny(xs []string, sub string) bool {
	for _, x := range xs {
		if strings.Contains(x, sub) {
			return true
		}
	}
	return false
}

// ---------------------------------------------------------------- C16: Dict

// a value that is one qualified symbol V<n>: compared without its qualifier (the name a path gets
// may depend on the order of registration)
var qualValRe = regexp.MustCompile(`^[\pL_][\pL\pN_]*\.(V\d+)$`)

func genDictCase(cx *CheckCtx, i int, allowQualKeys bool) *Case {
	r := cx.R.Fork()
	pool := sanePool(r, 3)
	if allowQualKeys && r.Bool() {
		// paths competing for ONE name: the keys print as d.X, d1.X, d2.X (all registered before
		// the Dict is reached, so the names are fixed) — the order must follow the PRINTED text
		pool = &PathPool{}
		base := pick(r, []string{"d", "status", "rand", "v2"})
		for k := 0; k < 2+r.Intn(3); k++ {
			pool.Paths = append(pool.Paths, fmt.Sprintf("h%d.com/x/%s", k, base))
		}
	}
	c := &Case{ID: fmt.Sprintf("%s-%d-%d", cx.Prop, cx.Seed, i)}
	c.Ops = append(c.Ops, Op{Kind: OpFile, F: 0, Str: []string{"new", "", "p"}})
	// (C16 only, sometimes: only SOME of the competing paths are referenced before the Dict, and
	// values reference them too — which path gets which name then depends on the order in which
	// the pairs are rendered (known finding D7, decided by C07), but whatever names result, the
	// pairs must be in the order of the PRINTED keys, each value beside its own key)
	partial := allowQualKeys && cx.Prop == "C16" && len(pool.Paths) >= 2 && strings.HasPrefix(pool.Paths[0], "h0.com/x/") && r.Chance(50)
	if allowQualKeys {
		// reference every pool path before the Dict so that key rendering registers nothing new
		var refs []Arg
		for k, p := range pool.Paths {
			if partial && r.Chance(60) {
				continue
			}
			refs = append(refs, st(Qual{Path: p, Name: qName(k)}))
		}
		c.Ops = append(c.Ops, Op{Kind: OpFAdd, F: 0, Args: []Arg{st(kw("Var"), id("_"), op("="), &Grp{Api: "Index"}, kw("Any"), &Grp{Api: "Values", Args: refs})}})
	}
	n := r.Intn(cx.N(9, 13))
	if r.Chance(3) {
		n = pick(r, []int{16, 17, 33, 65, 129, 257}) // many pairs
	}
	d := &Dict{}
	keyPool := []func() *Stmt{
		func() *Stmt { return st(mkLit(pick(r, []string{"a", "b", "ab", "a.b", "k", "a", "Z", ""}))) },
		func() *Stmt { return st(id(pick(r, []string{"a", "b", "ab", "k", "K"}))) },
		func() *Stmt { return st(mkLit(r.Intn(4))) },
		func() *Stmt { return st(id("f"), &Grp{Api: "Call"}) },
		func() *Stmt { return st(id("f"), &Grp{Api: "Call", Args: []Arg{st(mkLit(r.Intn(2)))}}) },
		func() *Stmt {
			if allowQualKeys {
				k := r.Intn(len(pool.Paths))
				// names on both sides of the digit that numbering inserts ("d.B" vs "d1.A")
				return st(Qual{Path: pool.Paths[k], Name: pick(r, []string{"Active", "Blocked", "Closed", "A", "Z", "a", qName(k)})})
			}
			return st(id("x"), Tok{Api: "Dot", HasArg: true, Arg: "Y"})
		},
		func() *Stmt { return st(kw("Null")) },
		func() *Stmt { return st() },
		// identifiers and literals that number parsers accept (NaN compares with nothing: a
		// comparator that looks at numeric VALUES stops being an order), beside plain numbers
		func() *Stmt { return st(id(pick(r, []string{"NaN", "nan", "Inf", "inf", "Infinity", "infinity", "NAN"}))) },
		func() *Stmt { return st(mkLit(pick(r, []int{0, 1, 2, 3, 10, 20, 100, -1, -10}))) },
		func() *Stmt { return st(mkLit(pick(r, []float64{0.5, 1.5, 10.25, -2.5, 1e3, 1e-3}))) },
		// text with fmt verbs in it (rendered text must never be used as a format string)
		func() *Stmt { return st(mkLit(pick(r, []string{"%d items", "100%", "%s", "%%", "%!v(MISSING)"}))) },
		func() *Stmt { return st(id("n"), op("%"), mkLit(2+r.Intn(3))) },
		// a composite literal as KEY (a struct used as map key): a Dict rendered while the outer
		// Dict is in the middle of rendering one of its keys
		func() *Stmt {
			inner := &Dict{}
			fields := []string{"R", "S", "W", "H", "X"}
			r.Shuffle(len(fields), func(a, b int) { fields[a], fields[b] = fields[b], fields[a] })
			for q := 0; q < 1+r.Intn(3); q++ {
				inner.Pairs = append(inner.Pairs, [2]Arg{st(id(fields[q])), st(mkLit(r.Intn(10)))})
			}
			return st(id(pick(r, []string{"Circle", "Square", "Rect", "A", "Zed"})), &Grp{Api: "Values", Args: []Arg{inner}})
		},
	}
	// (C07 only, sometimes: a SET literal — every value `true`, the same symbol under different
	// packages competing for one name: pairs that tie on everything but the printed qualifier)
	setMode := allowQualKeys && cx.Prop == "C07" && r.Chance(30)
	for j := 0; j < n; j++ {
		k := keyPool[r.Intn(len(keyPool))]()
		if setMode {
			q := r.Intn(len(pool.Paths))
			k = st(Qual{Path: pool.Paths[q], Name: pick(r, []string{"Same", "Same", "Other"})})
			d.Pairs = append(d.Pairs, [2]Arg{k, st(kw("True"))})
			continue
		}
		var v Arg = st(mkLit(1000 + j))
		if r.Chance(10) {
			v = st(kw("Null"))
		} else if r.Chance(12) {
			v = st(mkLit(fmt.Sprintf("%d%% of %%s", 1000+j)))
		} else if r.Chance(8) {
			v = st(mkLit(1000+j), op("%"), id("b"))
		} else if r.Chance(10) {
			v = st(id("v"), &Grp{Api: "Index", Args: []Arg{st(mkLit(1000 + j))}})
		} else if partial && r.Chance(35) {
			v = st(Qual{Path: pool.Paths[r.Intn(len(pool.Paths))], Name: fmt.Sprintf("V%d", 1000+j)})
		}
		d.Pairs = append(d.Pairs, [2]Arg{k, v})
	}
	c.Ops = append(c.Ops, Op{Kind: OpFAdd, F: 0, Args: []Arg{st(kw("Var"), id("m"), op("="), &Grp{Api: "Map", Args: []Arg{st(kw("Any"))}}, kw("Any"), &Grp{Api: "Values", Args: []Arg{d}})}})
	c.Ops = append(c.Ops, Op{Kind: OpRender, F: 0})
	return c
}

func findDict(c *Case) *Dict {
	var d *Dict
	walkCase(c, &termVisitor{arg: func(a Arg) {
		if x, ok := a.(*Dict); ok && d == nil {
			d = x
		}
	}})
	return d
}

func nodeText(fset *token.FileSet, n ast.Node) string {
	var b bytes.Buffer
	format.Node(&b, fset, n)
	return b.String()
}

func oracleC16(cx *CheckCtx, runs []*CaseRun) []Finding {
	var fs []Finding
	for _, cr := range runs {
		d := findDict(cr.Case)
		if d == nil || len(cr.Real) == 0 {
			continue
		}
		cx.Stats.OracleCases++
		obs := cr.Real[len(cr.Real)-1]
		if obs.Class != "ok" {
			fs = append(fs, Finding{Property: "C16", Shape: "dict-" + obs.Class, What: "Values(Dict) did not render: " + trunc(obs.Err), Case: cr.Case.Text()})
			continue
		}
		fset := token.NewFileSet()
		f, err := parser.ParseFile(fset, "", obs.Out, 0)
		if err != nil {
			continue
		}
		var lit *ast.CompositeLit
		for _, decl := range f.Decls {
			if gd, ok := decl.(*ast.GenDecl); ok {
				for _, sp := range gd.Specs {
					if vs, ok := sp.(*ast.ValueSpec); ok && len(vs.Names) == 1 && vs.Names[0].Name == "m" && len(vs.Values) == 1 {
						lit, _ = vs.Values[0].(*ast.CompositeLit)
					}
				}
			}
		}
		if lit == nil {
			fs = append(fs, Finding{Property: "C16", Shape: "no-composite-literal", What: "the Dict did not produce a composite literal body", Case: cr.Case.Text(), Observed: trunc(obs.Out)})
			continue
		}
		// expected: non-null pairs; key text from rendering the key alone with the real library
		type kvt struct{ k, v string }
		var want []kvt
		rl := NewReal(&FormChooser{Fixed: 1, r: NewRng(1)})
		isNullArg := func(a Arg) bool {
			s, ok := a.(*Stmt)
			if !ok {
				return false
			}
			if len(s.Items) == 0 {
				return true
			}
			t, ok := s.Items[0].(Tok)
			return ok && t.Api == "Null" && len(s.Items) == 1
		}
		for _, p := range d.Pairs {
			if isNullArg(p[0]) || isNullArg(p[1]) {
				continue
			}
			ktxt := ""
			if ks, ok := p[0].(*Stmt); ok {
				hasQual := false
				walkItems(ks.Items, &termVisitor{item: func(it SItem) {
					if _, q := it.(Qual); q {
						hasQual = true
					}
				}})
				if hasQual {
					ktxt = "\x00qual"
				} else {
					ktxt = rl.buildStmt(ks).GoString()
				}
			}
			want = append(want, kvt{ktxt, qualValRe.ReplaceAllString(rl.buildStmt(p[1].(*Stmt)).GoString(), "\x00q.$1")})
		}
		var got []kvt
		bad := false
		for _, e := range lit.Elts {
			kv, ok := e.(*ast.KeyValueExpr)
			if !ok {
				bad = true
				break
			}
			got = append(got, kvt{nodeText(fset, kv.Key), qualValRe.ReplaceAllString(nodeText(fset, kv.Value), "\x00q.$1")})
		}
		if bad {
			fs = append(fs, Finding{Property: "C16", Shape: "not-key-value", What: "composite literal body is not a list of key: value pairs", Case: cr.Case.Text(), Observed: trunc(obs.Out)})
			continue
		}
		shape := func() string {
			seen := map[string]bool{}
			for _, w := range want {
				if seen[w.k] && w.k != "\x00qual" {
					return "equal-key-texts"
				}
				seen[w.k] = true
			}
			return "pairs-mismatch"
		}
		if len(got) != len(want) {
			fs = append(fs, Finding{Property: "C16", Shape: shape(), What: fmt.Sprintf("%d non-null pairs given, %d rendered", len(want), len(got)), Case: cr.Case.Text(), Observed: trunc(obs.Out)})
			continue
		}
		// multiset of values must match exactly, and each value must sit beside its own key
		wantByV := map[string]string{}
		for _, w := range want {
			wantByV[w.v] = w.k
		}
		seenV := map[string]bool{}
		for i, g := range got {
			k, ok := wantByV[g.v]
			if !ok || seenV[g.v] {
				fs = append(fs, Finding{Property: "C16", Shape: shape(), What: fmt.Sprintf("value %s duplicated or not given", g.v), Case: cr.Case.Text(), Observed: trunc(obs.Out)})
				break
			}
			seenV[g.v] = true
			if k != "\x00qual" && k != g.k {
				fs = append(fs, Finding{Property: "C16", Shape: shape(), What: fmt.Sprintf("value %s attached to key %s instead of %s", g.v, g.k, k), Case: cr.Case.Text(), Observed: trunc(obs.Out)})
				break
			}
			if i > 0 && got[i-1].k > g.k {
				fs = append(fs, Finding{Property: "C16", Shape: "not-in-key-order", What: fmt.Sprintf("key %s rendered before %s", got[i-1].k, g.k), Case: cr.Case.Text(), Observed: trunc(obs.Out)})
				break
			}
		}
	}
	return fs
}

// ---------------------------------------------------------------- C07: determinism

func hasMultiDictQual(c *Case) bool {
	found := false
	walkCase(c, &termVisitor{arg: func(a Arg) {
		if d, ok := a.(*Dict); ok && len(d.Pairs) > 1 {
			walkArg(d, &termVisitor{item: func(it SItem) {
				if _, q := it.(Qual); q {
					found = true
				}
			}})
		}
	}})
	return found
}

// dictRegistersInMapOrder: the shape of known finding D7 — a multi-pair Dict that mentions a package
// NOT referenced by any earlier operation of the recipe (so the Dict itself registers it, in map
// order).  A Dict whose packages were all referenced before it has fixed names: nondeterminism there
// is not the known finding.
func dictRegistersInMapOrder(c *Case) bool {
	seen := map[string]bool{}
	found := false
	for _, o := range c.Ops {
		var here []string
		v := &termVisitor{}
		v.arg = func(a Arg) {
			if d, ok := a.(*Dict); ok && len(d.Pairs) > 1 {
				walkArg(d, &termVisitor{item: func(it SItem) {
					if q, isQ := it.(Qual); isQ && !seen[q.Path] {
						found = true
					}
				}})
			}
		}
		v.item = func(it SItem) {
			if q, isQ := it.(Qual); isQ {
				here = append(here, q.Path)
			}
		}
		for _, a := range o.Args {
			walkArg(a, v)
		}
		walkItems(o.Items, v)
		for _, p := range here {
			seen[p] = true
		}
	}
	return found
}

func hasEqualKeyTexts(c *Case) bool {
	found := false
	walkCase(c, &termVisitor{arg: func(a Arg) {
		if d, ok := a.(*Dict); ok {
			seen := map[string]bool{}
			for _, p := range d.Pairs {
				var b strings.Builder
				serArg(&b, p[0])
				if seen[b.String()] {
					found = true
				}
				seen[b.String()] = true
			}
		}
	}})
	return found
}

func oracleC07(cx *CheckCtx, runs []*CaseRun) []Finding {
	fs := d7Membership(cx, runs)
	reps := 8
	for ci, cr := range runs {
		if cr.BuildPanic != "" || len(cr.Real) == 0 {
			continue
		}
		cx.Stats.OracleCases++
		first := cr.Real
		for k := 0; k < reps; k++ {
			obs, bp := RunReal(cr.Case, &FormChooser{r: NewRng(uint64(ci)*131 + 7), Fixed: -1}, false)
			if bp != "" {
				break
			}
			diff := -1
			for i := range first {
				if i < len(obs) && (obs[i].Class != first[i].Class || obs[i].Out != first[i].Out) {
					diff = i
					break
				}
			}
			if diff >= 0 {
				shape := "nondeterministic-output"
				if dictRegistersInMapOrder(cr.Case) {
					shape = "dict-registers-imports-in-map-order"
				} else if hasEqualKeyTexts(cr.Case) {
					shape = "dict-equal-key-texts"
				}
				fs = append(fs, Finding{Property: "C07", Shape: shape, What: "two builds of the same recipe rendered different bytes", Case: cr.Case.Text(), Expected: trunc(first[diff].Out), Observed: trunc(obs[diff].Out)})
				break
			}
		}
	}
	return fs
}

// ---------------------------------------------------------------- C08: repeatability / stability

func qualifierMap(src string, isFile bool) map[int]string {
	m := map[int]string{}
	fset := token.NewFileSet()
	var node ast.Node
	if isFile {
		f, err := parser.ParseFile(fset, "", src, 0)
		if err != nil {
			return nil
		}
		node = f
	} else {
		f, err := parser.ParseFile(fset, "", "package p\nfunc _(){\n"+src+"\n}", 0)
		if err != nil {
			f, err = parser.ParseFile(fset, "", "package p\n"+src, 0)
			if err != nil {
				return nil
			}
		}
		node = f
	}
	for i, qs := range usesOf(node.(*ast.File)) {
		for q := range qs {
			m[i] = q
		}
	}
	return m
}

func oracleC08(cx *CheckCtx, runs []*CaseRun) []Finding {
	var fs []Finding
	for _, cr := range runs {
		if cr.BuildPanic != "" {
			continue
		}
		cx.Stats.OracleCases++
		// (1) identical consecutive renders of the same thing without anything in between
		type key struct {
			kind  OpKind
			a, b  int
		}
		lastOut := map[key]RenderObs{}
		okSince := map[key]int{}  // value -> render # at which it rendered ok; only hint setters happened since
		names := map[int]string{} // pool index -> qualifier seen first ("" = bare)
		ri := -1
		anonAfterUse := false
		for _, o := range cr.Case.Ops {
			if !o.IsRender() {
				if o.Kind != OpLower {
					lastOut = map[key]RenderObs{}
				}
				if o.Kind != OpLower && o.Kind != OpHintName && o.Kind != OpHintAlias && o.Kind != OpHintNames {
					okSince = map[key]int{}
				}
				continue
			}
			ri++
			if ri >= len(cr.Real) {
				break
			}
			obs := cr.Real[ri]
			if obs.Class == "panic" {
				fs = append(fs, Finding{Property: "C08", Shape: panicShape(obs.Err), What: fmt.Sprintf("render #%d panics: %s", ri+1, trunc(obs.Err)), Case: cr.Case.Text()})
				break
			}
			k := key{o.Kind, o.F, o.S}
			if o.Kind == OpGFrag {
				k.b = o.F2
			}
			if prev, ok := lastOut[k]; ok {
				if prev.Class != obs.Class || prev.Out != obs.Out {
					shape := "rerender-differs"
					if prev.Class == "ok" && obs.Class == "ok" {
						pa, _ := format.Source([]byte(prev.Out))
						pb, _ := format.Source([]byte(obs.Out))
						if pa != nil && string(pa) == string(pb) {
							shape = "rerender-differs-in-whitespace"
						}
					}
					fs = append(fs, Finding{Property: "C08", Shape: shape, What: fmt.Sprintf("rendering the same value twice in a row gives different results (render #%d vs #%d)", ri, ri+1), Case: cr.Case.Text(), Expected: trunc(prev.Out + prev.Err), Observed: trunc(obs.Out + obs.Err)})
					break
				}
			}
			lastOut[k] = obs
			// (1a) every path of a value that rendered ok is registered, registered names are final,
			// and hint setters only concern unregistered paths: hints given after a successful render
			// cannot make the next render of the same value fail
			if since, ok := okSince[k]; ok && obs.Class == "err:format" {
				fs = append(fs, Finding{Property: "C08", Shape: "render-fails-after-hint", What: fmt.Sprintf("the value rendered in #%d renders no longer in #%d although only import hints were given in between: %s", since, ri+1, trunc(obs.Err)), Case: cr.Case.Text(), Observed: trunc(obs.Err)})
				break
			}
			if obs.Class == "ok" {
				if _, ok := okSince[k]; !ok {
					okSince[k] = ri + 1
				}
			} else {
				delete(okSince, k)
			}
			// (1b) the import block of a File render binds every qualifier used in the body
			if obs.Class == "ok" && o.Kind == OpRender {
				if what := unboundQualifier(obs.Out, poolOf(cr.Case)); what != "" {
					fs = append(fs, Finding{Property: "C08", Shape: "qualifier-not-declared", What: fmt.Sprintf("render #%d: %s", ri+1, what), Case: cr.Case.Text(), Observed: trunc(obs.Out)})
					break
				}
			}
			// (2) name stability
			if obs.Class != "ok" || anonAfterUse {
				continue
			}
			qm := qualifierMap(obs.Out, o.Kind == OpRender)
			bad := false
			for i, q := range qm {
				if old, ok := names[i]; ok && old != q {
					fs = append(fs, Finding{Property: "C08", Shape: "name-changed-after-render", What: fmt.Sprintf("path #%d was rendered as %q earlier and as %q in render #%d", i, old, q, ri+1), Case: cr.Case.Text(), Observed: trunc(obs.Out)})
					bad = true
					break
				}
				names[i] = q
			}
			if bad {
				break
			}
		}
	}
	return fs
}

// ---------------------------------------------------------------- C20: clone histories

func genCloneCase(cx *CheckCtx, i int) *Case {
	r := cx.R.Fork()
	c := &Case{ID: fmt.Sprintf("C20-%d-%d", cx.Seed, i)}
	c.Ops = append(c.Ops, Op{Kind: OpFile, F: 0, Str: []string{"new", "", "p"}})
	tokn := 0
	// every kind of item a statement can end in at the moment it is cloned or appended to:
	// tokens, keywords (incl. default), literals, groups (incl. Case), null and layout tokens.
	// Block is left out: a Block directly after Case/Default drops its braces only when both are
	// items of the SAME statement (boundary lemma C13.boundary_case_block), which the flat list
	// model cannot see through a clone.
	one := func() SItem {
		tokn++
		switch r.Intn(16) {
		case 0, 1:
			return op(pick(r, []string{"+", "-", ":=", ".", "*"}))
		case 2, 3:
			return &Grp{Api: "Call", Args: []Arg{st(mkLit(tokn))}}
		case 4:
			return &Grp{Api: "Case", Args: []Arg{st(mkLit(tokn)), st(id(fmt.Sprintf("c%d", tokn)))}}
		case 5:
			return kw(pick(r, []string{"Default", "Break", "Var", "Func", "Continue", "Fallthrough"}))
		case 6:
			return &Grp{Api: pick(r, []string{"Index", "Parens", "Values", "List", "Params"}), Args: []Arg{st(id(fmt.Sprintf("g%d", tokn)))}}
		case 7:
			return mkLit(fmt.Sprintf("s%d", tokn))
		case 8:
			return Tok{Api: pick(r, []string{"Null", "Line", "Empty"})}
		case 9:
			// struct tags (a builder that looks at what the statement already ends in could merge them)
			return Tag{KV: [][2]string{{pick(r, []string{"json", "db", "xml"}), fmt.Sprintf("v%d", tokn)}}}
		case 10:
			return Comment{Text: fmt.Sprintf("c%d", tokn)}
		default:
			return id(fmt.Sprintf("t%d", tokn))
		}
	}
	toks := func() []SItem {
		n := 1 + r.Intn(9)
		var out []SItem
		for j := 0; j < n; j++ {
			out = append(out, one())
		}
		return out
	}
	nfile := 0
	// observation: the statement added to a fresh NoFormat File and rendered (raw bytes: every
	// token counts, nothing is rejected by the formatter), or rendered as a formatted fragment
	observe := func(reg int) {
		if r.Chance(30) {
			c.Ops = append(c.Ops, Op{Kind: OpFrag, S: reg, F: 0})
			return
		}
		nfile++
		c.Ops = append(c.Ops, Op{Kind: OpFile, F: nfile, Str: []string{"new", "", "p"}}, Op{Kind: OpSet, F: nfile, Str: []string{"noformat", "1"}},
			Op{Kind: OpFAdd, F: nfile, Args: []Arg{Ref{Reg: reg}}}, Op{Kind: OpRender, F: nfile})
	}
	regs := []int{1}
	c.Ops = append(c.Ops, Op{Kind: OpStmt, S: 1, Items: toks()})
	if r.Chance(12) {
		// a deep CHAIN of clones of clones, each extended by a few tokens (x = x.Clone().Dot(…).Call()
		// in a loop), then sibling clones of the deepest one extended alternately: depth thresholds
		depth := 8 + r.Intn(40)
		short := func() []SItem {
			var out []SItem
			for j := 0; j < 1+r.Intn(3); j++ {
				out = append(out, one())
			}
			return out
		}
		for k := 0; k < depth; k++ {
			nr := len(regs) + 1
			c.Ops = append(c.Ops, Op{Kind: OpClone, S: nr, S2: regs[len(regs)-1]}, Op{Kind: OpApp, S: nr, Items: short()})
			regs = append(regs, nr)
		}
		deep := regs[len(regs)-1]
		a, b := deep+1, deep+2
		c.Ops = append(c.Ops, Op{Kind: OpClone, S: a, S2: deep}, Op{Kind: OpClone, S: b, S2: deep})
		for k := 0; k < 2+r.Intn(4); k++ {
			c.Ops = append(c.Ops, Op{Kind: OpApp, S: pick(r, []int{a, b, deep}), Items: short()})
		}
		for _, rg := range []int{a, b, deep, regs[len(regs)/2]} {
			observe(rg)
		}
		return c
	}
	steps := 5 + r.Intn(cx.N(25, 55))
	for s := 0; s < steps; s++ {
		switch r.Intn(6) {
		case 0, 1:
			nr := len(regs) + 1
			c.Ops = append(c.Ops, Op{Kind: OpClone, S: nr, S2: pick(r, regs)})
			regs = append(regs, nr)
		case 5:
			// a held statement (often a clone nothing was appended to yet) handed ALONE to the
			// Group form of Add — `t := g.Add(c)` — and tokens chained onto what Add returns: `t` is
			// a new statement holding `c`; `c` itself must stay what it was
			nr := len(regs) + 1
			src := pick(r, regs)
			if r.Chance(50) {
				c.Ops = append(c.Ops, Op{Kind: OpClone, S: nr, S2: src})
				regs = append(regs, nr)
				src = nr
				nr++
			}
			c.Ops = append(c.Ops, Op{Kind: OpFNew, S: nr, F: 0, Items: []SItem{&AddItems{Args: []Arg{Ref{Reg: src}}}}})
			regs = append(regs, nr)
			if r.Chance(70) {
				c.Ops = append(c.Ops, Op{Kind: OpApp, S: nr, Items: toks()})
			}
			if r.Chance(50) {
				observe(src)
			}
		default:
			c.Ops = append(c.Ops, Op{Kind: OpApp, S: pick(r, regs), Items: toks()})
		}
		if r.Chance(60) {
			observe(pick(r, regs))
		}
	}
	for _, rg := range regs {
		observe(rg)
	}
	return c
}

// trivially correct list model of Clone/append: a clone sees its origin's tokens as they are
// now, followed by its own.
func oracleC20(cx *CheckCtx, runs []*CaseRun) []Finding {
	var fs []Finding
	for _, cr := range runs {
		if cr.BuildPanic != "" {
			continue
		}
		cx.Stats.OracleCases++
		origin := map[int]int{}
		fileRef := map[int]int{}
		own := map[int][]SItem{}
		var flat func(r int) []SItem
		flat = func(r int) []SItem {
			var out []SItem
			if o, ok := origin[r]; ok {
				out = append(out, flat(o)...)
			}
			return append(out, own[r]...)
		}
		ri := -1
		for _, o := range cr.Case.Ops {
			switch o.Kind {
			case OpStmt:
				own[o.S] = append([]SItem{}, o.Items...)
			case OpApp:
				own[o.S] = append(own[o.S], o.Items...)
			case OpClone:
				origin[o.S] = o.S2
				own[o.S] = nil
			case OpFNew:
				// t := g.Add(c): a new statement whose first item is the statement c
				if len(o.Items) == 1 {
					if ai, ok := o.Items[0].(*AddItems); ok && len(ai.Args) == 1 {
						if rf, ok := ai.Args[0].(Ref); ok {
							origin[o.S] = rf.Reg
							own[o.S] = nil
						}
					}
				}
			case OpFAdd:
				if len(o.Args) == 1 {
					if rf, ok := o.Args[0].(Ref); ok {
						fileRef[o.F] = rf.Reg
					}
				}
			case OpFrag, OpRender:
				ri++
				if ri >= len(cr.Real) {
					continue
				}
				reg := o.S
				if o.Kind == OpRender {
					reg = fileRef[o.F]
				}
				want := NewReal(&FormChooser{Fixed: 1, r: NewRng(1)}).buildStmt(&Stmt{Items: flat(reg)})
				var b bytes.Buffer
				var err error
				if o.Kind == OpRender {
					wf := jen.NewFile("p")
					wf.NoFormat = true
					wf.Add(want)
					err = wf.Render(&b)
				} else {
					err = want.Render(&b)
				}
				o.S = reg
				obs := cr.Real[ri]
				if (err == nil) != (obs.Class == "ok") || (err == nil && b.String() != obs.Out) {
					fs = append(fs, Finding{Property: "C20", Shape: "clone-history-diverges", What: fmt.Sprintf("statement S%d renders differently from the list model after this history", o.S), Case: cr.Case.Text(), Expected: trunc(b.String()), Observed: trunc(obs.Out + obs.Err)})
				}
			}
		}
	}
	return fs
}

// a Dict pair with a null side is omitted together with everything inside its other side
func hasNullDictSide(c *Case) bool {
	found := false
	isNull := func(a Arg) bool {
		s, ok := a.(*Stmt)
		if !ok {
			return false
		}
		if len(s.Items) == 0 {
			return true
		}
		t, ok := s.Items[0].(Tok)
		return ok && t.Api == "Null"
	}
	walkCase(c, &termVisitor{arg: func(a Arg) {
		if d, ok := a.(*Dict); ok {
			for _, p := range d.Pairs {
				if isNull(p[0]) || isNull(p[1]) {
					found = true
				}
			}
		}
	}})
	return found
}

// unboundQualifier: a selector q.Q<i>z whose qualifier q is not declared by the import block for
// the path it was built from (a named spec with another name, or no spec at all).
func unboundQualifier(src string, pool []string) string {
	fset := token.NewFileSet()
	f, err := parser.ParseFile(fset, "", src, 0)
	if err != nil {
		return ""
	}
	specs := parseImports(f)
	for i, qs := range usesOf(f) {
		if i >= len(pool) {
			continue
		}
		for q := range qs {
			if q == "" {
				continue
			}
			ok := false
			for _, s := range specs {
				if s.path == pool[i] && (s.name == q || s.name == "") {
					ok = true
				}
			}
			if !ok {
				return fmt.Sprintf("%s.%s is used but the import block does not declare %q under that name", q, qName(i), pool[i])
			}
		}
	}
	return ""
}

// d7Membership: for recipes of the known-finding shape D7 (one multi-pair Dict whose keys/values
// reference unregistered colliding packages) the implementation's output depends on the map
// iteration order, which the model takes as a parameter: the real output must be one of the
// model's outputs over ALL permutations of the Dict's pairs.
func d7Membership(cx *CheckCtx, runs []*CaseRun) []Finding {
	var fs []Finding
	var variants []*Case
	owner := map[string]*CaseRun{}
	for _, cr := range runs {
		if !strings.HasPrefix(cr.Case.ID, "C07-d7-") || len(cr.Real) == 0 || cr.Real[0].Class != "ok" {
			continue
		}
		d := findDict(cr.Case)
		if d == nil || len(d.Pairs) > 5 {
			continue
		}
		idx := make([]int, len(d.Pairs))
		for i := range idx {
			idx[i] = i
		}
		n := 0
		var rec func(k int)
		rec = func(k int) {
			if k == len(idx) {
				perm := &Dict{}
				for _, j := range idx {
					perm.Pairs = append(perm.Pairs, d.Pairs[j])
				}
				rw := &rewriter{}
				c2 := rw.rewriteCase(cr.Case, fmt.Sprintf("%s-perm%d", cr.Case.ID, n))
				// replace the Dict in the copy
				walkCase(c2, &termVisitor{arg: func(a Arg) {
					if x, ok := a.(*Dict); ok {
						x.Pairs = perm.Pairs
					}
				}})
				variants = append(variants, c2)
				owner[c2.ID] = cr
				n++
				return
			}
			for i := k; i < len(idx); i++ {
				idx[k], idx[i] = idx[i], idx[k]
				rec(k + 1)
				idx[k], idx[i] = idx[i], idx[k]
			}
		}
		rec(0)
	}
	if len(variants) == 0 {
		return nil
	}
	model, err := RunModel(variants, 8)
	if err != nil {
		cx.note("d7 membership: driver error " + err.Error())
		return nil
	}
	outs := map[*CaseRun]map[string]bool{}
	for i, v := range variants {
		cr := owner[v.ID]
		if outs[cr] == nil {
			outs[cr] = map[string]bool{}
		}
		if len(model[i]) > 0 && model[i][0].Class == "ok" {
			_, out := expectFromModel(model[i][0], false, Op{})
			outs[cr][out] = true
		}
	}
	members := 0
	for cr, set := range outs {
		if set[cr.Real[0].Out] {
			members++
		} else {
			fs = append(fs, Finding{Property: "C07", Shape: "dict-output-not-among-model-orders", What: fmt.Sprintf("the output is none of the %d outputs the model produces over all iteration orders of the Dict", len(set)), Case: cr.Case.Text(), Observed: trunc(cr.Real[0].Out)})
		}
	}
	cx.Extra["d7_membership_cases"] = len(outs)
	cx.Extra["d7_membership_members"] = members
	cx.Extra["d7_membership_model_runs"] = len(variants)
	return fs
}

var listMarkerRe = regexp.MustCompile(`(?m)^[ \t]+[*+•][ \t]`)

var staleAnnotationRe = regexp.MustCompile(`(?m)^package [A-Za-z_0-9]+ // import "`)

// fileLevelComments: placement of header comments, package comments and the canonical-path
// annotation in one formatted File.Render output.
func fileLevelComments(cx *CheckCtx, cr *CaseRun, ri int, out string, headers, pkgc []string, canonical string) []Finding {
	var fs []Finding
	func() {
		cx.hist("file-level-comment-cases")
		fset := token.NewFileSet()
		f, err := parser.ParseFile(fset, "", out, parser.ParseComments)
		if err != nil {
			return
		}
		doc := ""
		if f.Doc != nil {
			doc = f.Doc.Text()
		}
		rawDoc := ""
		if f.Doc != nil {
			for _, cm := range f.Doc.List {
				rawDoc += cm.Text + "\n"
			}
		}
		for _, h := range headers {
			first := strings.TrimSpace(strings.Split(strings.TrimSpace(h), "\n")[0])
			// the header is in the doc when one of the doc's comment lines IS the header's first
			// line (a substring test would take the header " //" for part of every comment)
			inDoc := false
			if f.Doc != nil {
				for _, cm := range f.Doc.List {
					for _, l := range strings.Split(cm.Text, "\n") {
						if t := strings.TrimSpace(l); t == "*/" || t == "/*" {
							// the markers of a block comment are not comment TEXT (a header whose text
							// is "* /" would otherwise "be" the closing marker of every block comment)
							continue
						}
						l = squashWS(l)
						if q := squashWS(first); l == q || strings.TrimPrefix(l, "//") == q || strings.TrimPrefix(l, "/*") == q {
							inDoc = true
						}
					}
				}
			}
			// (a header that is nothing but a comment marker — "//", "/* */" — has no text that
			// could be found anywhere: an empty package-comment line `//` is not that header)
			bare := strings.TrimSuffix(strings.TrimPrefix(strings.TrimPrefix(squashWS(first), "//"), "/*"), "*/")
			if squashWS(first) != "" && bare != "" && inDoc && !containsAny(pkgc, first) {
				shape := "header-in-package-doc"
				if strings.Contains(strings.Join(headers, "\n"), "\f") {
					// (a form feed in ANY of the header comments: they form one comment group)
					// go/printer counts a form feed inside a comment as a line break when it tracks
					// positions, so the blank line jennifer writes after the header is dropped
					shape = "header-with-formfeed-in-package-doc"
				}
				fs = append(fs, Finding{Property: "C15", Shape: shape, What: fmt.Sprintf("header comment %q became part of the package doc", first), Case: cr.Case.Text(), Observed: trunc(out)})
			}
		}
		for _, p := range pkgc {
			first := strings.TrimSpace(strings.Split(strings.TrimSpace(p), "\n")[0])
			// (compared without blanks and control characters: gofmt strips the common "blank"
			// prefix of block-comment lines, and everything <= ' ' counts as blank there)
			if squashWS(first) != "" && !strings.Contains(squashWS(rawDoc), squashWS(first)) {
				fs = append(fs, Finding{Property: "C15", Shape: "package-comment-not-doc", What: fmt.Sprintf("package comment %q is not in the package doc (doc=%q)", first, doc), Case: cr.Case.Text(), Observed: trunc(out)})
			}
		}
		if canonical != "" {
			// the annotation must be a comment on the package clause line: // import "<path>"
			want := fmt.Sprintf("// import %q", canonical)
			if !strings.Contains(out, "package "+f.Name.Name+" "+want) {
				fs = append(fs, Finding{Property: "C15", Shape: "canonical-annotation", What: "canonical import path annotation missing or malformed", Case: cr.Case.Text(), Expected: want, Observed: trunc(out)})
			}
		}
	}()
	return fs
}

func squashWS(x string) string {
	return strings.Map(func(r rune) rune {
		if r <= ' ' || r == 0x7f || unicode.IsSpace(r) {
			return -1
		}
		return r
	}, x)
}
