package main

// splitmix64: every random choice of a run derives from one seed, so a case replays exactly.
type Rng struct{ s uint64 }

func NewRng(seed uint64) *Rng { return &Rng{s: seed} }

func (r *Rng) Next() uint64 {
	r.s += 0x9e3779b97f4a7c15
	z := r.s
	z = (z ^ (z >> 30)) * 0xbf58476d1ce4e5b9
	z = (z ^ (z >> 27)) * 0x94d049bb133111eb
	return z ^ (z >> 31)
}

func (r *Rng) Intn(n int) int {
	if n <= 0 {
		return 0
	}
	return int(r.Next() % uint64(n))
}

func (r *Rng) Bool() bool        { return r.Next()&1 == 1 }
func (r *Rng) Chance(p int) bool { return r.Intn(100) < p } // p in percent
func (r *Rng) Fork() *Rng        { return NewRng(r.Next()) }

func pick[T any](r *Rng, xs []T) T { return xs[r.Intn(len(xs))] }

func (r *Rng) Shuffle(n int, swap func(i, j int)) {
	for i := n - 1; i > 0; i-- {
		swap(i, r.Intn(i+1))
	}
}
