package main

// C18, gennames clause: run the REAL gennames (built from /repo) on the installed toolchain,
// compare its table with the Lean model of getPackages fed with the same `go list` lines
// (correspondence), and check every entry against the package clauses in GOROOT/src (oracle).

import (
	"fmt"
	"go/ast"
	"go/build"
	"go/parser"
	"go/token"
	"os"
	"os/exec"
	"path/filepath"
	"sort"
	"strconv"
	"strings"
)

func goListLines() ([][3]string, error) {
	cmd := exec.Command("go", "list", "-e", "-f", "{{ .Standard }} {{ .ImportPath }} {{ .Name }}", "all")
	// the same command, directory and (restricted) environment as gennames/hints.go uses: the
	// lines are the INPUT of the modelled function
	home, _ := os.UserHomeDir()
	cmd.Dir = filepath.Join(build.Default.GOROOT, "src")
	cmd.Env = []string{"GOPATH=" + build.Default.GOPATH, "GOROOT=" + build.Default.GOROOT, "HOME=" + home}
	out, err := cmd.Output()
	if err != nil {
		return nil, err
	}
	var lines [][3]string
	for _, l := range strings.Split(strings.TrimSpace(string(out)), "\n") {
		f := strings.Split(l, " ")
		if len(f) == 3 {
			lines = append(lines, [3]string{f[0], f[1], f[2]})
		}
	}
	return lines, nil
}

func parseNameTable(path string) (map[string]string, error) {
	fset := token.NewFileSet()
	f, err := parser.ParseFile(fset, path, nil, 0)
	if err != nil {
		return nil, err
	}
	out := map[string]string{}
	ast.Inspect(f, func(n ast.Node) bool {
		if kv, ok := n.(*ast.KeyValueExpr); ok {
			k, ok1 := kv.Key.(*ast.BasicLit)
			v, ok2 := kv.Value.(*ast.BasicLit)
			if ok1 && ok2 {
				ks, _ := strconv.Unquote(k.Value)
				vs, _ := strconv.Unquote(v.Value)
				out[ks] = vs
			}
		}
		return true
	})
	return out, nil
}

func gennamesFindings(cx *CheckCtx) []Finding {
	var fs []Finding
	tmp, err := os.MkdirTemp("", "verif-gennames-")
	if err != nil {
		return nil
	}
	defer os.RemoveAll(tmp)
	bin := filepath.Join(tmp, "gennames")
	build := exec.Command("go", "build", "-o", bin, "./gennames")
	build.Dir = "/repo"
	if r := os.Getenv("VERIF_REPO"); r != "" {
		build.Dir = r
	}
	if out, err := build.CombinedOutput(); err != nil {
		cx.note("gennames does not build: " + trunc(string(out)))
		return []Finding{{Property: "C18", Shape: "gennames-build", What: "gennames does not build: " + trunc(string(out))}}
	}
	lines, err := goListLines()
	if err != nil || len(lines) == 0 {
		cx.note(fmt.Sprintf("go list failed: %v", err))
		return nil
	}
	cx.Extra["gennames_go_list_lines"] = len(lines)
	type variant struct {
		standard, novendor bool
		filter             string
	}
	for vi, v := range []variant{{true, false, ""}, {true, true, ""}, {true, false, "net"}, {true, true, "crypto/"}} {
		outFile := filepath.Join(tmp, fmt.Sprintf("out%d.go", vi))
		args := []string{"-output", outFile}
		if v.standard {
			args = append(args, "-standard")
		}
		if v.novendor {
			args = append(args, "-novendor")
		}
		if v.filter != "" {
			args = append(args, "-filter", "^"+v.filter)
		}
		run := exec.Command(bin, args...)
		run.Dir = tmp
		if out, err := run.CombinedOutput(); err != nil {
			fs = append(fs, Finding{Property: "C18", Shape: "gennames-run", What: "gennames failed: " + trunc(string(out))})
			continue
		}
		real, err := parseNameTable(outFile)
		if err != nil {
			fs = append(fs, Finding{Property: "C18", Shape: "gennames-output", What: "gennames output does not parse: " + err.Error()})
			continue
		}
		// model
		var b strings.Builder
		fmt.Fprintf(&b, "gennames %s %s %s %d", b01(v.standard), b01(v.novendor), esc(v.filter), len(lines))
		for _, l := range lines {
			b.WriteString(" " + l[0] + " " + esc(l[1]) + " " + esc(l[2]))
		}
		ml, err := runDriverLines(b.String() + "\n")
		if err != nil || len(ml) != 1 || !strings.HasPrefix(ml[0], "T ") {
			fs = append(fs, Finding{Property: "C18", Shape: "machinery", What: fmt.Sprintf("driver gennames failed: %v %v", err, ml)})
			continue
		}
		tok := strings.Fields(ml[0])
		model := map[string]string{}
		for i := 2; i+1 < len(tok); i += 2 {
			model[unesc(tok[i])] = unesc(tok[i+1])
		}
		cx.Stats.OracleCases++
		var keys []string
		for k := range real {
			keys = append(keys, k)
		}
		sort.Strings(keys)
		if len(model) != len(real) {
			fs = append(fs, Finding{Property: "C18", Shape: "gennames-table-differs", What: fmt.Sprintf("gennames %v: %d entries, model of getPackages gives %d", args, len(real), len(model))})
		}
		for _, k := range keys {
			if model[k] != real[k] {
				fs = append(fs, Finding{Property: "C18", Shape: "gennames-table-differs", What: fmt.Sprintf("gennames %v: entry %q -> %q, model gives %q", args, k, real[k], model[k])})
				break
			}
			// oracle: the name is the package's declared name in the installed toolchain
			decl := stdDeclName(k)
			if decl == "" {
				decl = stdDeclName("vendor/" + k)
			}
			if decl != "" && decl != real[k] {
				fs = append(fs, Finding{Property: "C18", Shape: "gennames-wrong-name", What: fmt.Sprintf("gennames %v maps %q to %q but the package declares %q", args, k, real[k], decl)})
				break
			}
		}
		cx.Extra[fmt.Sprintf("gennames_entries_variant%d", vi)] = len(real)
	}
	return fs
}
