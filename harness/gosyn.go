package main

// C01 three-way tie: serialise a go/ast tree as a GoSyn term (lean/JenVerif/Spec/GoSyn.lean).
// The driver builds it with the LEAN builder, renders it with the model and prints it with the
// reference printer; the harness builds the same file through the real API (converter in
// "mirror" mode: literal and tag texts as atoms, like GoSyn) and compares raw bytes.

import (
	"fmt"
	"go/ast"
	"go/token"
	"strings"
)

type synw struct {
	b       strings.Builder
	imports map[string]string
	err     string
}

func (w *synw) t(s string)    { w.b.WriteString(" " + s) }
func (w *synw) s(s string)    { w.b.WriteString(" " + esc(s)) }
func (w *synw) n(n int)       { fmt.Fprintf(&w.b, " %d", n) }
func (w *synw) fail(s string) {
	if w.err == "" {
		w.err = s
	}
}

func (w *synw) optExpr(e ast.Expr) {
	if e == nil {
		w.t("-")
		return
	}
	w.t("+")
	w.expr(e)
}

func (w *synw) exprs(xs []ast.Expr) {
	w.n(len(xs))
	for _, x := range xs {
		w.expr(x)
	}
}

func (w *synw) fields(fl *ast.FieldList) {
	if fl == nil {
		w.n(0)
		return
	}
	w.n(len(fl.List))
	for _, f := range fl.List {
		w.field(f)
	}
}

func (w *synw) field(f *ast.Field) {
	w.n(len(f.Names))
	for _, n := range f.Names {
		w.s(n.Name)
	}
	w.expr(f.Type)
	if f.Tag != nil {
		w.t("+")
		w.s(f.Tag.Value)
	} else {
		w.t("-")
	}
}

func (w *synw) results(fl *ast.FieldList) {
	switch {
	case fl == nil || len(fl.List) == 0:
		w.t("R0")
	case len(fl.List) == 1 && len(fl.List[0].Names) == 0:
		w.t("R1")
		w.expr(fl.List[0].Type)
	default:
		w.t("Rn")
		w.fields(fl)
	}
}

var binOps2 = map[string]bool{"+": true, "-": true, "*": true, "/": true, "%": true, "&": true, "|": true, "^": true, "<<": true, ">>": true, "&^": true, "&&": true, "||": true, "==": true, "!=": true, "<": true, "<=": true, ">": true, ">=": true}
var unOps2 = map[string]bool{"+": true, "-": true, "!": true, "^": true, "&": true, "<-": true, "~": true}

func (w *synw) expr(e ast.Expr) {
	switch x := e.(type) {
	case *ast.Ident:
		w.t("Ei")
		w.s(x.Name)
	case *ast.BasicLit:
		w.t("El")
		w.s(x.Value)
	case *ast.SelectorExpr:
		if pid, ok := x.X.(*ast.Ident); ok {
			if path, imp := w.imports[pid.Name]; imp {
				w.t("Eq")
				w.s(path)
				w.s(x.Sel.Name)
				return
			}
		}
		w.t("Es")
		w.expr(x.X)
		w.s(x.Sel.Name)
	case *ast.CallExpr:
		if x.Ellipsis.IsValid() && len(x.Args) > 0 {
			w.t("Ecs")
			w.expr(x.Fun)
			w.exprs(x.Args[:len(x.Args)-1])
			w.expr(x.Args[len(x.Args)-1])
			return
		}
		w.t("Ec")
		w.expr(x.Fun)
		w.exprs(x.Args)
	case *ast.IndexExpr:
		w.t("Ex")
		w.expr(x.X)
		w.expr(x.Index)
	case *ast.IndexListExpr:
		w.t("Exl")
		w.expr(x.X)
		w.exprs(x.Indices)
	case *ast.SliceExpr:
		if x.Slice3 {
			w.t("Es3")
			w.expr(x.X)
			w.optExpr(x.Low)
			w.optExpr(x.High)
			w.optExpr(x.Max)
		} else {
			w.t("Esl")
			w.expr(x.X)
			w.optExpr(x.Low)
			w.optExpr(x.High)
		}
	case *ast.StarExpr:
		w.t("Ep")
		w.expr(x.X)
	case *ast.UnaryExpr:
		if !unOps2[x.Op.String()] {
			w.fail("unary operator " + x.Op.String())
		}
		w.t("Eu")
		w.s(x.Op.String())
		w.expr(x.X)
	case *ast.BinaryExpr:
		if !binOps2[x.Op.String()] {
			w.fail("binary operator " + x.Op.String())
		}
		w.t("Eb")
		w.expr(x.X)
		w.s(x.Op.String())
		w.expr(x.Y)
	case *ast.ParenExpr:
		w.t("Epa")
		w.expr(x.X)
	case *ast.TypeAssertExpr:
		w.t("Ea")
		w.expr(x.X)
		w.optExpr(x.Type)
	case *ast.CompositeLit:
		w.t("EC")
		w.optExpr(x.Type)
		w.exprs(x.Elts)
	case *ast.KeyValueExpr:
		w.t("Ek")
		w.expr(x.Key)
		w.expr(x.Value)
	case *ast.FuncLit:
		if x.Type.TypeParams != nil {
			w.fail("func literal with type parameters")
		}
		w.t("EF")
		w.fields(x.Type.Params)
		w.results(x.Type.Results)
		w.stmts(x.Body.List)
	case *ast.ArrayType:
		w.t("EA")
		w.optExpr(x.Len)
		w.expr(x.Elt)
	case *ast.MapType:
		w.t("EM")
		w.expr(x.Key)
		w.expr(x.Value)
	case *ast.ChanType:
		w.t("Eh")
		switch x.Dir {
		case ast.SEND:
			w.t("send")
		case ast.RECV:
			w.t("recv")
		default:
			w.t("both")
		}
		w.expr(x.Value)
	case *ast.FuncType:
		if x.TypeParams != nil {
			w.fail("func type with type parameters")
		}
		w.t("Ef")
		w.fields(x.Params)
		w.results(x.Results)
	case *ast.StructType:
		w.t("ET")
		w.fields(x.Fields)
	case *ast.InterfaceType:
		w.t("EI")
		w.n(len(x.Methods.List))
		for _, f := range x.Methods.List {
			if len(f.Names) == 1 {
				if ft, ok := f.Type.(*ast.FuncType); ok {
					w.t("Im")
					w.s(f.Names[0].Name)
					w.fields(ft.Params)
					w.results(ft.Results)
					continue
				}
			}
			w.t("Ie")
			w.expr(f.Type)
		}
	case *ast.Ellipsis:
		w.t("Ee")
		w.optExpr(x.Elt)
	default:
		w.fail(fmt.Sprintf("expression %T", e))
		w.t("Ei")
		w.s("_")
	}
}

func (w *synw) optStmt(s ast.Stmt) {
	if s == nil {
		w.t("-")
		return
	}
	w.t("+")
	w.stmt(s)
}

func (w *synw) stmts(list []ast.Stmt) {
	for _, s := range list {
		if _, e := s.(*ast.EmptyStmt); e {
			w.fail("empty statement")
		}
	}
	w.n(len(list))
	for _, s := range list {
		w.stmt(s)
	}
}

func (w *synw) clauses(list []ast.Stmt) {
	w.n(len(list))
	for _, s := range list {
		cc, ok := s.(*ast.CaseClause)
		if !ok {
			w.fail("clause")
			continue
		}
		w.exprs(cc.List)
		w.stmts(cc.Body)
	}
}

func (w *synw) stmt(s ast.Stmt) {
	switch x := s.(type) {
	case *ast.ExprStmt:
		w.t("Se")
		w.expr(x.X)
	case *ast.AssignStmt:
		w.t("Sa")
		w.exprs(x.Lhs)
		w.s(x.Tok.String())
		w.exprs(x.Rhs)
	case *ast.IncDecStmt:
		w.t("Si")
		w.expr(x.X)
		if x.Tok == token.INC {
			w.t("inc")
		} else {
			w.t("dec")
		}
	case *ast.SendStmt:
		w.t("Ss")
		w.expr(x.Chan)
		w.expr(x.Value)
	case *ast.ReturnStmt:
		w.t("Sr")
		w.exprs(x.Results)
	case *ast.BranchStmt:
		w.t("Sb")
		w.t(x.Tok.String())
		if x.Label != nil {
			w.t("+")
			w.s(x.Label.Name)
		} else {
			w.t("-")
		}
	case *ast.BlockStmt:
		w.t("SB")
		w.stmts(x.List)
	case *ast.IfStmt:
		w.t("Sif")
		w.optStmt(x.Init)
		w.expr(x.Cond)
		w.stmts(x.Body.List)
		w.optStmt(x.Else)
	case *ast.ForStmt:
		if x.Init == nil && x.Post == nil {
			w.t("Sf")
			w.optExpr(x.Cond)
			w.stmts(x.Body.List)
		} else {
			w.t("Sfc")
			w.optStmt(x.Init)
			w.optExpr(x.Cond)
			w.optStmt(x.Post)
			w.stmts(x.Body.List)
		}
	case *ast.RangeStmt:
		w.t("Srg")
		w.optExpr(x.Key)
		w.optExpr(x.Value)
		w.t(b01(x.Tok == token.DEFINE))
		w.expr(x.X)
		w.stmts(x.Body.List)
	case *ast.SwitchStmt:
		w.t("Ssw")
		w.optStmt(x.Init)
		w.optExpr(x.Tag)
		w.clauses(x.Body.List)
	case *ast.TypeSwitchStmt:
		w.t("Sts")
		w.optStmt(x.Init)
		w.stmt(x.Assign)
		w.clauses(x.Body.List)
	case *ast.SelectStmt:
		w.t("Ssl")
		w.n(len(x.Body.List))
		for _, c := range x.Body.List {
			cc := c.(*ast.CommClause)
			w.optStmt(cc.Comm)
			w.stmts(cc.Body)
		}
	case *ast.GoStmt:
		w.t("Sg")
		w.expr(x.Call)
	case *ast.DeferStmt:
		w.t("Sd")
		w.expr(x.Call)
	case *ast.DeclStmt:
		w.t("SD")
		w.genDecl(x.Decl.(*ast.GenDecl))
	case *ast.LabeledStmt:
		if _, e := x.Stmt.(*ast.EmptyStmt); e {
			w.fail("label before an empty statement")
		}
		w.t("Sl")
		w.s(x.Label.Name)
		w.stmt(x.Stmt)
	default:
		w.fail(fmt.Sprintf("statement %T", s))
		w.t("Sr")
		w.n(0)
	}
}

func (w *synw) spec(sp ast.Spec) {
	switch x := sp.(type) {
	case *ast.ValueSpec:
		w.t("Pv")
		w.n(len(x.Names))
		for _, n := range x.Names {
			w.s(n.Name)
		}
		w.optExpr(x.Type)
		w.exprs(x.Values)
	case *ast.TypeSpec:
		w.t("Pt")
		w.s(x.Name.Name)
		w.fields(x.TypeParams)
		w.t(b01(x.Assign.IsValid()))
		w.expr(x.Type)
	default:
		w.fail("spec")
	}
}

func (w *synw) genDecl(d *ast.GenDecl) {
	k := map[token.Token]string{token.VAR: "var", token.CONST: "const", token.TYPE: "type"}[d.Tok]
	if k == "" {
		w.fail("gen decl " + d.Tok.String())
		k = "var"
	}
	if d.Lparen.IsValid() {
		w.t("Gn")
		w.t(k)
		w.n(len(d.Specs))
		for _, sp := range d.Specs {
			w.spec(sp)
		}
	} else {
		w.t("G1")
		w.t(k)
		w.spec(d.Specs[0])
	}
}

func (w *synw) decl(d ast.Decl) {
	switch x := d.(type) {
	case *ast.FuncDecl:
		if x.Body == nil {
			w.fail("function declaration without body")
			return
		}
		w.t("Df")
		if x.Recv != nil && len(x.Recv.List) == 1 {
			w.t("+")
			w.field(x.Recv.List[0])
		} else {
			if x.Recv != nil {
				w.fail("receiver list")
			}
			w.t("-")
		}
		w.s(x.Name.Name)
		w.fields(x.Type.TypeParams)
		w.fields(x.Type.Params)
		w.results(x.Type.Results)
		w.stmts(x.Body.List)
	case *ast.GenDecl:
		w.t("Dg")
		w.genDecl(x)
	}
}

// SynLine returns the `gs` protocol line for the non-import declarations of f, or a reason why
// the file is outside GoSyn.
func SynLine(f *ast.File, imports map[string]string, freg int) (string, string) {
	w := &synw{imports: imports}
	n := 0
	for _, d := range f.Decls {
		if gd, ok := d.(*ast.GenDecl); ok && gd.Tok == token.IMPORT {
			continue
		}
		n++
	}
	fmt.Fprintf(&w.b, "gs F%d %d", freg, n)
	for _, d := range f.Decls {
		if gd, ok := d.(*ast.GenDecl); ok && gd.Tok == token.IMPORT {
			continue
		}
		w.decl(d)
	}
	return w.b.String(), w.err
}
