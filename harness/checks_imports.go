package main

import (
	"strconv"
	"fmt"
	"go/parser"
	"go/token"
	"os"
	"path/filepath"
	"regexp"
	"sort"
	"strings"
)

// an always-valid body that references pool paths: var _ = []interface{}{ q.Q0z, ... } and a func
func importBody(r *Rng, pool *PathPool, nrefs int) []*Stmt {
	var refs []Arg
	var used []int
	for i := 0; i < nrefs; i++ {
		k := r.Intn(len(pool.Paths))
		used = append(used, k)
		refs = append(refs, st(Qual{Path: pool.Paths[k], Name: qName(k)}))
	}
	if len(used) == 0 {
		used = []int{0}
		refs = append(refs, st(Qual{Path: pool.Paths[0], Name: qName(0)}))
	}
	body := []*Stmt{st(kw("Var"), id("_"), op("="), &Grp{Api: "Index"}, kw("Any"), &Grp{Api: "Values", Args: refs})}
	if r.Bool() {
		k := r.Intn(len(pool.Paths))
		body = append(body, st(kw("Func"), id("f"), &Grp{Api: "Params"}, &Grp{Api: "Block", Args: []Arg{
			st(Qual{Path: pool.Paths[k], Name: qName(k)}, &Grp{Api: "Call"}),
			st(&Grp{Api: "Switch", Args: []Arg{st(id("x"))}}, &Grp{Api: "Block", Args: []Arg{
				st(&Grp{Api: "Case", Args: []Arg{st(mkLit(1))}}, &Grp{Api: "Block", Args: []Arg{st(Qual{Path: pool.Paths[k], Name: qName(k)}, &Grp{Api: "Call"})}}),
			}}),
		}}))
	}
	if r.Chance(30) {
		// references inside constructs that render nothing
		k := r.Intn(len(pool.Paths))
		q := st(Qual{Path: pool.Paths[k], Name: qName(k)})
		body = append(body, st(kw("Var"), id("_"), op("="), &Grp{Api: "Map", Args: []Arg{st(kw("String"))}}, kw("Any"), &Grp{Api: "Values", Args: []Arg{
			&Dict{Pairs: [][2]Arg{{st(mkLit("k")), st(kw("Null"))}, {st(kw("Null")), q}}}}}))
	}
	if r.Chance(30) {
		// a reference as the KEY of a pair whose value is null: the pair is omitted
		k := r.Intn(len(pool.Paths))
		q := st(Qual{Path: pool.Paths[k], Name: qName(k)})
		body = append(body, st(kw("Var"), id("_"), op("="), &Grp{Api: "Map", Args: []Arg{st(kw("Any"))}}, kw("Any"), &Grp{Api: "Values", Args: []Arg{
			&Dict{Pairs: [][2]Arg{{q, st(kw("Null"))}}}}}))
	}
	if r.Chance(40) {
		// Dict pairs in every combination of key/value kinds (plain, reference, null, Empty), with
		// and without sibling pairs that do render
		// a reference in a pair that IS rendered only names a path already registered by the first
		// statement (otherwise the order-dependent naming of known finding D7 comes into play); a
		// reference in an omitted pair may name any path
		mk := func(kind int, free bool) Arg {
			k := used[r.Intn(len(used))]
			if free {
				k = r.Intn(len(pool.Paths))
			}
			switch kind {
			case 0:
				return st(mkLit(r.Intn(9)))
			case 1:
				return st(Qual{Path: pool.Paths[k], Name: qName(k)})
			case 2:
				return st(kw("Null"))
			case 3:
				return st()
			default:
				return st(id("v"), &Grp{Api: "Call", Args: []Arg{st(Qual{Path: pool.Paths[k], Name: qName(k)})}})
			}
		}
		d := &Dict{}
		for j := 0; j < 1+r.Intn(4); j++ {
			kk, vk := r.Intn(5), r.Intn(5)
			omitted := kk == 2 || kk == 3 || vk == 2 || vk == 3
			d.Pairs = append(d.Pairs, [2]Arg{mk(kk, omitted), mk(vk, omitted)})
		}
		body = append(body, st(kw("Var"), id("_"), op("="), &Grp{Api: "Map", Args: []Arg{st(kw("Any"))}}, kw("Any"), &Grp{Api: "Values", Args: []Arg{d}}))
	}
	if r.Chance(15) {
		// a reference inside an all-null type-parameter list and inside a null group
		k := r.Intn(len(pool.Paths))
		body = append(body, st(kw("Var"), id("_"), id("T"), &Grp{Api: "Types", Args: []Arg{st(kw("Null")), Nil{}}}))
		_ = k
	}
	return body
}

func sanePath(p string) bool {
	if p == "" {
		return false
	}
	for _, r := range p {
		if r <= ' ' || r == 0x7f || r == 0xFFFD || strings.ContainsRune("!\"#$%&'()*,:;<=>?[\\]^`{|}", r) || r > 0x7f {
			return false
		}
	}
	return true
}

func sanePool(r *Rng, n int) *PathPool {
	p := &PathPool{}
	seen := map[string]bool{}
	for len(p.Paths) < n {
		s := genPath(r)
		if sanePath(s) && !seen[s] {
			seen[s] = true
			p.Paths = append(p.Paths, s)
		}
	}
	return p
}

// collidingPool: many paths competing for one base name
func collidingPool(r *Rng, n int) *PathPool {
	// bases include leading parts of predeclared identifiers that end in digits: numbering them
	// (int3 -> int31, int32) must skip the reserved word
	base := pick(r, []string{"d", "rand", "type", "any", "x", "v2", "123", "pkg", "len",
		"int", "int1", "int3", "int6", "uint", "uint1", "uint3", "uint6", "float3", "float6", "complex6", "complex12"})
	if strings.HasPrefix(base, "int") || strings.HasPrefix(base, "uint") || strings.HasPrefix(base, "float") || strings.HasPrefix(base, "complex") {
		if n < 9 {
			n = 9
		}
	}
	p := &PathPool{}
	for i := 0; i < n; i++ {
		p.Paths = append(p.Paths, fmt.Sprintf("h%d.com/%s", i, base))
	}
	if r.Bool() {
		p.Paths = append(p.Paths, "math/rand", "crypto/rand")
	}
	// paths whose own name looks like a numbered alias of the base name
	for k := 0; k < r.Intn(4); k++ {
		p.Paths = append(p.Paths, fmt.Sprintf("n%d.io/%s%d", k, base, 1+r.Intn(4)))
	}
	// registration order matters: shuffle
	for i := len(p.Paths) - 1; i > 0; i-- {
		j := r.Intn(i + 1)
		p.Paths[i], p.Paths[j] = p.Paths[j], p.Paths[i]
	}
	return p
}

// genImportHistory: setup (hints, Anon), then rounds of (add references, render): paths that are
// Anon'd first and referenced in a later round, imports appearing between renders
func genImportHistory(cx *CheckCtx, i int, cfg FileCfg) *Case {
	r := cx.R.Fork()
	pool := sanePool(r, 3+r.Intn(5))
	if r.Chance(30) {
		pool = collidingPool(r, 3+r.Intn(4))
	}
	c := &Case{ID: fmt.Sprintf("%s-hist-%d-%d", cx.Prop, cx.Seed, i)}
	c.Ops = append(c.Ops, genFileSetup(r, 0, pool, cfg)...)
	if r.Chance(70) {
		c.Ops = append(c.Ops, Op{Kind: OpAnon, F: 0, Str: []string{pick(r, pool.Paths)}})
	}
	if r.Chance(35) {
		pool.Paths = append(pool.Paths, "C")
	}
	reg := 0
	rounds := 2 + r.Intn(3)
	touched := map[int]bool{} // pool indices that have appeared in some output already
	var held []int            // statements rendered as fragments with the File, not (yet) part of it
	for k := 0; k < rounds; k++ {
		if k > 0 && r.Chance(25) {
			c.Ops = append(c.Ops, Op{Kind: OpCgo, F: 0, Str: []string{"#include <x.h>"}})
		}
		if k > 0 && r.Chance(30) {
			// Anon of a path, possibly one that already has a name from an earlier render
			c.Ops = append(c.Ops, Op{Kind: OpAnon, F: 0, Str: []string{pick(r, pool.Paths)}})
		}
		if k > 0 && r.Chance(30) {
			// a hint given after a render, for a path no output has shown yet (for a path already
			// printed the name is final, C08, and the oracle's "declared name" would be stale)
			q := r.Intn(len(pool.Paths))
			if !touched[q] && pool.Paths[q] != "C" {
				if r.Bool() {
					c.Ops = append(c.Ops, Op{Kind: OpHintName, F: 0, Str: []string{pool.Paths[q], genHintName(r)}})
				} else {
					c.Ops = append(c.Ops, Op{Kind: OpHintAlias, F: 0, Str: []string{pool.Paths[q], pick(r, []string{genHintName(r), "."})}})
				}
			}
		}
		mkRefs := func(n int) []Arg {
			var refs []Arg
			for j := 0; j < n; j++ {
				q := r.Intn(len(pool.Paths))
				touched[q] = true
				refs = append(refs, st(Qual{Path: pool.Paths[q], Name: qName(q)}))
			}
			return refs
		}
		if r.Chance(35) {
			// a statement rendered with the File as a fragment BEFORE anything else of this round
			// is added: its paths are named first, the file body may list them later
			reg++
			c.Ops = append(c.Ops, Op{Kind: OpStmt, S: reg, Items: st(kw("Var"), id("_"), op("="), &Grp{Api: "Index"}, kw("Any"), &Grp{Api: "Values", Args: mkRefs(1 + r.Intn(2))}).Items})
			c.Ops = append(c.Ops, Op{Kind: OpFrag, S: reg, F: 0})
			held = append(held, reg)
		}
		if refs := mkRefs(r.Intn(3)); len(refs) > 0 {
			s := st(kw("Var"), id("_"), op("="), &Grp{Api: "Index"}, kw("Any"), &Grp{Api: "Values", Args: refs})
			c.Ops = append(c.Ops, addToFile(r, 0, s, &reg)...)
		}
		if len(held) > 0 && r.Chance(50) {
			c.Ops = append(c.Ops, Op{Kind: OpFAdd, F: 0, Args: []Arg{Ref{Reg: held[0]}}})
			held = held[1:]
		}
		c.Ops = append(c.Ops, Op{Kind: OpRender, F: 0})
	}
	return dropInsane(c)
}

// genCgoHistory: "C" referenced (or Anon'd) and rendered, then a preamble and/or new imports are
// added between further renders
func genCgoHistory(cx *CheckCtx, i int) *Case {
	r := cx.R.Fork()
	pool := &PathPool{Paths: []string{"C", "os", "fmt", "a.com/d", "b.com/d", "9fans.net/go/acme", "strings"}}
	c := &Case{ID: fmt.Sprintf("%s-cgohist-%d-%d", cx.Prop, cx.Seed, i)}
	c.Ops = append(c.Ops, Op{Kind: OpFile, F: 0, Str: []string{"new", "", "p"}})
	if r.Chance(25) {
		c.Ops = append(c.Ops, Op{Kind: OpSet, F: 0, Str: []string{"prefix", "pkg"}})
	}
	ref := func(k int) Op {
		return Op{Kind: OpFAdd, F: 0, Args: []Arg{st(kw("Var"), id("_"), op("="), Qual{Path: pool.Paths[k], Name: qName(k)})}}
	}
	if r.Chance(70) {
		c.Ops = append(c.Ops, ref(0))
	} else {
		c.Ops = append(c.Ops, Op{Kind: OpAnon, F: 0, Str: []string{"C"}})
	}
	for k := 0; k < r.Intn(3); k++ {
		c.Ops = append(c.Ops, ref(1+r.Intn(len(pool.Paths)-1)))
	}
	c.Ops = append(c.Ops, Op{Kind: OpRender, F: 0})
	for round := 0; round < 1+r.Intn(3); round++ {
		if r.Chance(60) {
			c.Ops = append(c.Ops, Op{Kind: OpCgo, F: 0, Str: []string{pick(r, []string{"#include <x.h>", "#cgo LDFLAGS: -lm"})}})
		}
		for k := 0; k < r.Intn(3); k++ {
			c.Ops = append(c.Ops, ref(1+r.Intn(len(pool.Paths)-1)))
		}
		c.Ops = append(c.Ops, Op{Kind: OpRender, F: 0})
	}
	return c
}

func genImportCase(cx *CheckCtx, i int, cfg FileCfg, sane bool) *Case {
	r := cx.R.Fork()
	var pool *PathPool
	switch {
	case r.Chance(4):
		// MANY imports (tables, sets and caches that switch strategy at a size)
		n := pick(r, []int{8, 9, 16, 17, 33, 64, 65, 129})
		if sane || r.Bool() {
			pool = sanePool(r, n)
		} else {
			pool = collidingPool(r, n)
		}
	case r.Chance(25):
		pool = collidingPool(r, 2+r.Intn(cx.N(8, 40)))
	case sane:
		pool = sanePool(r, 2+r.Intn(8))
	default:
		pool = genPool(r, 2+r.Intn(8))
	}
	c := &Case{ID: fmt.Sprintf("%s-%d-%d", cx.Prop, cx.Seed, i)}
	c.Ops = append(c.Ops, genFileSetup(r, 0, pool, cfg)...)
	reg := 0
	for _, s := range importBody(r, pool, 1+r.Intn(2*len(pool.Paths))) {
		c.Ops = append(c.Ops, addToFile(r, 0, s, &reg)...)
	}
	c.Ops = append(c.Ops, Op{Kind: OpRender, F: 0})
	return c
}

// sanitize hints in setup ops so that all paths are sane (for parse-based oracles)
func dropInsane(c *Case) *Case {
	n := &Case{ID: c.ID}
	for _, o := range c.Ops {
		switch o.Kind {
		case OpHintName, OpHintAlias:
			if !sanePath(o.Str[0]) {
				continue
			}
		case OpHintNames:
			var kv [][2]string
			for _, e := range o.KV {
				if sanePath(e[0]) {
					kv = append(kv, e)
				}
			}
			o.KV = kv
		case OpAnon:
			var ps []string
			for _, p := range o.Str {
				if sanePath(p) {
					ps = append(ps, p)
				}
			}
			if len(ps) == 0 {
				continue
			}
			o.Str = ps
		case OpSet:
			if o.Str[0] == "canonical" && !sanePath(o.Str[1]) {
				continue
			}
		}
		n.Ops = append(n.Ops, o)
	}
	return n
}

var prefixedDotRe = regexp.MustCompile(`(?m)^(import )?\S+_\. "`)

// importFindings runs the import oracle over every successful File.Render of the runs and
// keeps the problems that belong to `prop`.
func importFindings(cx *CheckCtx, runs []*CaseRun, prop string) []Finding {
	var fs []Finding
	for _, cr := range runs {
		pool := poolOf(cr.Case)
		ri := -1
		earlier := map[string]bool{}
		fixed := map[string]bool{} // path seen in an earlier output -> dot-imported at that moment
		var now *FileTruth
		noteSeen := func(src string, fragment bool) {
			if fragment {
				src = "package p\n" + src
			}
			if f, err := parser.ParseFile(token.NewFileSet(), "", src, 0); err == nil {
				for i := range usesOf(f) {
					if i < len(pool) {
						earlier[pool[i]] = true
						if _, ok := fixed[pool[i]]; !ok && now != nil {
							fixed[pool[i]] = now.isDot(pool[i])
						}
					}
				}
			}
		}
		for oi, o := range cr.Case.Ops {
			if o.Kind == OpAnon {
				// Anon overwrites the entry: the path is no longer registered under a name
				for _, p := range o.Str {
					delete(fixed, p)
				}
			}
			if !o.IsRender() {
				continue
			}
			now = truthOf(cr.Case, o.F, oi)
			now.Fixed = map[string]bool{}
			for p, d := range fixed {
				now.Fixed[p] = d
			}
			ri++
			if ri >= len(cr.Real) {
				break
			}
			if o.Kind != OpRender {
				if cr.Real[ri].Class == "ok" {
					noteSeen(cr.Real[ri].Out, true)
				}
				continue
			}
			cx.Stats.OracleCases++
			t := truthOf(cr.Case, o.F, oi)
			t.Pool = pool
			t.Fixed = now.Fixed
			t.EarlierSeen = map[string]bool{}
			for p := range earlier {
				t.EarlierSeen[p] = true
			}
			if cr.Real[ri].Class == "ok" {
				noteSeen(cr.Real[ri].Out, false)
			}
			obs := cr.Real[ri]
			if obs.Class == "err:format" {
				// valid body by construction: the import block must be the cause
				raw := obs.Err
				if !importsAtFault(raw) {
					// the bodies of these recipes are valid by construction, so the only other
					// possible cause is a qualifier that is no identifier (e.g. "." written
					// before the name of a dot-imported package's symbol)
					if m := badQualRe.FindStringSubmatch(raw); m != nil {
						k, _ := strconv.Atoi(m[2])
						p, shape := "C03", "qualifier-not-an-identifier"
						if k < len(pool) {
							if h, ok := t.Hints[pool[k]]; (ok && h[0] == ".") || t.EverDot[pool[k]] {
								// (declared a dot-import now, or earlier in this File's history)
								p, shape = "C06", "dot-import-not-bare"
							}
						}
						if p == prop || prop == "C03" {
							fs = append(fs, Finding{Property: prop, Shape: shape, What: fmt.Sprintf("File.Render fails: the reference to %s is written as %q", m[2], m[0]), Case: cr.Case.Text(), Observed: trunc(raw)})
						}
					}
					continue
				}
				shape, p := "unparseable-output", "*"
				if prefixedDotRe.MatchString(raw) {
					shape, p = "dot-import-prefixed", "C06"
				}
				if p == prop || (p == "*" && allSane(cr.Case)) {
					fs = append(fs, Finding{Property: prop, Shape: shape, What: "File.Render fails: the generated import block is not valid Go", Case: cr.Case.Text(), Observed: trunc(raw)})
				}
				continue
			}
			if obs.Class != "ok" {
				continue
			}
			src := obs.Out
			for _, pr := range checkImports(t, src) {
				if pr.Prop == "*" && !importsAtFault(src) {
					continue
				}
				if pr.Prop == prop || (prop == "C18" && pr.Prop == "C03") || (pr.Prop == "*" && allSane(cr.Case)) {
					shape := pr.Kind
					if pr.Kind == "duplicate-name" && t.Prefix != "" {
						shape = "duplicate-name-with-prefix"
					}
					if pr.Kind == "predeclared-name" {
						shape = "predeclared-name:" + pr.Name
					}
					if pr.Kind == "dot-qualified" && strings.Contains(pr.What, "\"C\"") {
						shape = "C-dot-hint"
					}
					fs = append(fs, Finding{Property: prop, Shape: shape, What: pr.What, Case: cr.Case.Text(), Observed: trunc(src)})
				}
			}
		}
	}
	return fs
}

// a reference Q<i>z preceded by "." with no identifier before the dot
var badQualRe = regexp.MustCompile("(^|[^A-Za-z0-9_)\\]}\"'`])\\.+Q(\\d+)z")

func allSane(c *Case) bool {
	ok := true
	for _, p := range poolOf(c) {
		if !strings.HasPrefix(p, "\x00") && !sanePath(p) {
			ok = false
		}
	}
	for _, o := range c.Ops {
		switch o.Kind {
		case OpHintName, OpHintAlias:
			if !sanePath(o.Str[0]) {
				ok = false
			}
		case OpAnon:
			for _, p := range o.Str {
				if !sanePath(p) {
					ok = false
				}
			}
		case OpHintNames:
			for _, e := range o.KV {
				if !sanePath(e[0]) {
					ok = false
				}
			}
		case OpSet:
			if o.Str[0] == "canonical" && !sanePath(o.Str[1]) {
				ok = false
			}
		}
	}
	return ok
}

// rawImportNames extracts alias names from the import block of an unformatted file.
var rawSpecRe = regexp.MustCompile(`^([^"\s(]\S*) "`)
var importBlockRe = regexp.MustCompile(`(?s)\nimport \(\n.*?\n\)\n`)
var importLineRe = regexp.MustCompile(`\nimport [^\n]*\n`)

// importsAtFault: does the unformatted source parse once its import declarations are removed?
func importsAtFault(errText string) bool {
	src := errText
	if i := strings.Index(errText, "while formatting source:\n"); i >= 0 {
		src = errText[i+len("while formatting source:\n"):]
	}
	src = importBlockRe.ReplaceAllString(src, "\n")
	src = importLineRe.ReplaceAllString(src, "\n")
	_, err := parser.ParseFile(token.NewFileSet(), "", src, 0)
	return err == nil
}

func rawImportNames(raw string) []string {
	var out []string
	in := false
	for _, l := range strings.Split(raw, "\n") {
		switch {
		case l == "import (":
			in = true
		case l == ")":
			in = false
		case in || strings.HasPrefix(l, "import "):
			if m := rawSpecRe.FindStringSubmatch(strings.TrimPrefix(l, "import ")); m != nil {
				out = append(out, m[1])
			}
		}
		if strings.HasPrefix(l, "var ") || strings.HasPrefix(l, "func ") {
			break
		}
	}
	return out
}

func stdPackages() []string {
	var out []string
	root := filepath.Join(goroot(), "src")
	filepath.Walk(root, func(p string, info os.FileInfo, err error) error {
		if err != nil || !info.IsDir() {
			return nil
		}
		rel, _ := filepath.Rel(root, p)
		rel = filepath.ToSlash(rel)
		base := filepath.Base(p)
		if rel == "." {
			return nil
		}
		if base == "testdata" || base == "vendor" || base == "internal" || rel == "cmd" || strings.HasPrefix(base, "_") || strings.HasPrefix(base, ".") {
			return filepath.SkipDir
		}
		if stdDeclName(rel) != "" {
			out = append(out, rel)
		}
		return nil
	})
	sort.Strings(out)
	return out
}

func registerImportChecks() {
	mk := func(prop string, sane bool, gen func(cx *CheckCtx) []*Case) {
		checks[prop] = &PropCheck{
			Gen: gen,
			Oracle: func(cx *CheckCtx, runs []*CaseRun) []Finding {
				fs := importFindings(cx, runs, prop)
				if prop == "C18" {
					fs = append(fs, gennamesFindings(cx)...)
				}
				return fs
			},
		}
	}
	std := func(cx *CheckCtx, quick, thorough int, cfg FileCfg, sane bool) []*Case {
		var cs []*Case
		for i := 0; i < cx.N(quick, thorough); i++ {
			c := genImportCase(cx, i, cfg, sane)
			if sane {
				c = dropInsane(c)
			}
			cs = append(cs, c)
		}
		if sane {
			for i := 0; i < cx.N(quick/6, thorough/6); i++ {
				cs = append(cs, genImportHistory(cx, i, cfg))
			}
		}
		return cs
	}
	mk("C03", true, func(cx *CheckCtx) []*Case {
		cfg := defaultFileCfg
		cfg.hintPct, cfg.anonPct, cfg.prefixPct = 60, 30, 35
		return std(cx, 3000, 200000, cfg, true)
	})
	mk("C04", true, func(cx *CheckCtx) []*Case {
		cfg := defaultFileCfg
		cfg.hintPct, cfg.anonPct = 80, 50
		cs := std(cx, 2500, 100000, cfg, true)
		// general programs too: references nested under every construct
		for i := 0; i < cx.N(500, 20000); i++ {
			cs = append(cs, dropInsane(genFileCase(cx, 100000+i, func(r *Rng, pool *PathPool) *TreeGen {
				g := validGen(r, sanePool(r, 2+r.Intn(5)))
				return g
			}, 1+cx.R.Intn(3), cfg, 1)))
		}
		return cs
	})
	checks["C05"] = &PropCheck{
		Gen: func(cx *CheckCtx) []*Case {
			cfg := defaultFileCfg
			cfg.hintPct, cfg.prefixPct = 50, 50
			cs := std(cx, 3500, 250000, cfg, false)
			// histories (fragments rendered with the File first, Anon and hints between renders)
			for i := 0; i < cx.N(600, 40000); i++ {
				cs = append(cs, genImportHistory(cx, i, cfg))
			}
			// exhaustive: every keyword and universe identifier as last element and as hint
			words := append(append([]string{}, goKeywords...), universeNames...)
			for wi, w := range words {
				for v := 0; v < 4; v++ {
					c := &Case{ID: fmt.Sprintf("C05-word-%s-%d", w, v)}
					c.Ops = append(c.Ops, Op{Kind: OpFile, F: 0, Str: []string{"new", "", "p"}})
					if v&1 == 1 {
						c.Ops = append(c.Ops, Op{Kind: OpSet, F: 0, Str: []string{"prefix", "pkg"}})
					}
					path := "x.com/" + w
					if v&2 == 2 {
						path = "x.com/other"
						k := OpHintName
						if wi%2 == 0 {
							k = OpHintAlias
						}
						c.Ops = append(c.Ops, Op{Kind: k, F: 0, Str: []string{path, w}})
					}
					c.Ops = append(c.Ops, Op{Kind: OpFAdd, F: 0, Args: []Arg{st(kw("Var"), id("_"), op("="), Qual{Path: path, Name: qName(0)})}})
					c.Ops = append(c.Ops, Op{Kind: OpRender, F: 0})
					cs = append(cs, c)
				}
			}
			return cs
		},
		Oracle: func(cx *CheckCtx, runs []*CaseRun) []Finding {
			fs := importFindings(cx, runs, "C05")
			// raw-text legality for arbitrary (possibly unparseable) path strings
			for _, cr := range runs {
				if allSane(cr.Case) || len(cr.Model) == 0 {
					continue
				}
				twin, bp := RunReal(cr.Case, &FormChooser{Fixed: 1, r: NewRng(1)}, true)
				if bp != "" || len(twin) == 0 || twin[0].Class != "ok" {
					continue
				}
				cx.Stats.OracleCases++
				seen := map[string]bool{}
				for _, n := range rawImportNames(twin[0].Out) {
					if n == "_" || n == "." {
						continue
					}
					if !isGoIdent(n) || isKeywordOrUniverse(n) {
						fs = append(fs, Finding{Property: "C05", Shape: "illegal-name-raw", What: fmt.Sprintf("import name %q is not a legal, non-reserved identifier", n), Case: cr.Case.Text(), Observed: trunc(twin[0].Out)})
					}
					if seen[n] {
						shape := "duplicate-name"
						if t := truthOf(cr.Case, 0, len(cr.Case.Ops)); t.Prefix != "" {
							shape = "duplicate-name-with-prefix"
						}
						fs = append(fs, Finding{Property: "C05", Shape: shape, What: fmt.Sprintf("import name %s used twice", n), Case: cr.Case.Text(), Observed: trunc(twin[0].Out)})
					}
					seen[n] = true
				}
			}
			return fs
		},
	}
	mk("C06", true, func(cx *CheckCtx) []*Case {
		cfg := defaultFileCfg
		cfg.localPct, cfg.dotPct, cfg.hintPct, cfg.prefixPct = 60, 40, 70, 40
		cs := std(cx, 2500, 90000, cfg, true)
		// near misses of the local path
		for i := 0; i < cx.N(500, 10000); i++ {
			r := cx.R.Fork()
			local := pick(r, []string{"a.com/x", "github.com/u/pkg", "x", "a.com/x/y", "example.com/foo/v2", "a.com/x/v3", "gopkg.in/yaml.v2",
				// (local paths that are themselves vendored copies, or live under internal/)
				"example.com/app/vendor/example.com/lib", "vendor/golang.org/x/net", "a.com/x/internal/y", "a.com/vendor/b.org/vendor/c"})
			near := []string{local, local + "/", local + "x", "b/" + local, strings.ToUpper(local), strings.TrimSuffix(local, "x"), local + "/x", "a.com", local[1:],
				local + "/v2", local + "/v3", strings.TrimSuffix(strings.TrimSuffix(local, "/v2"), "/v3"), strings.TrimSuffix(local, ".v2"), local + ".v2",
				strings.Replace(local, "/v2", "/v3", 1), local + "/internal", "vendor/" + local, strings.ToLower(local) + "_test"}
			if k := strings.LastIndex(local, "/vendor/"); k >= 0 {
				near = append(near, local[k+len("/vendor/"):], local[:k], local[:k]+"/vendor")
			}
			if strings.HasPrefix(local, "vendor/") {
				near = append(near, strings.TrimPrefix(local, "vendor/"))
			}
			if k := strings.LastIndex(local, "/internal/"); k >= 0 {
				near = append(near, local[k+len("/internal/"):], local[:k])
			}
			pool := &PathPool{}
			seen := map[string]bool{}
			for _, p := range near {
				if sanePath(p) && !seen[p] {
					seen[p] = true
					pool.Paths = append(pool.Paths, p)
				}
			}
			c := &Case{ID: fmt.Sprintf("C06-near-%d-%d", cx.Seed, i)}
			if r.Bool() {
				c.Ops = append(c.Ops, Op{Kind: OpFile, F: 0, Str: []string{"path", local, ""}})
			} else {
				c.Ops = append(c.Ops, Op{Kind: OpFile, F: 0, Str: []string{"pathname", local, "p"}})
			}
			if r.Chance(40) {
				c.Ops = append(c.Ops, Op{Kind: OpSet, F: 0, Str: []string{"prefix", "pkg"}})
			}
			for _, p := range pool.Paths {
				if r.Chance(25) {
					c.Ops = append(c.Ops, Op{Kind: OpHintAlias, F: 0, Str: []string{p, "."}})
				}
			}
			reg := 0
			for _, s := range importBody(r, pool, 2*len(pool.Paths)) {
				c.Ops = append(c.Ops, addToFile(r, 0, s, &reg)...)
			}
			c.Ops = append(c.Ops, Op{Kind: OpRender, F: 0})
			cs = append(cs, c)
		}
		// re-hint histories: a path declared a dot-import (or named) is rendered, then hinted
		// differently (a name for a dot-import, "." for a named one, a bulk ImportNames map), more
		// code is added, and the File (or a fragment with it) is rendered again: what was printed
		// stays (C08), what was not printed yet follows the newest hint
		for i := 0; i < cx.N(400, 10000); i++ {
			r := cx.R.Fork()
			pool := &PathPool{Paths: []string{"a.com/m", "b.org/x/m", "c.io/lib/matchers", "d.net/other", "e.dev/third/v2", "fmt", "strings"}}
			c := &Case{ID: fmt.Sprintf("C06-rehint-%d-%d", cx.Seed, i)}
			switch r.Intn(3) {
			case 0:
				c.Ops = append(c.Ops, Op{Kind: OpFile, F: 0, Str: []string{"new", "", "p"}})
			case 1:
				c.Ops = append(c.Ops, Op{Kind: OpFile, F: 0, Str: []string{"pathname", "example.com/gen/out", "out"}})
			default:
				c.Ops = append(c.Ops, Op{Kind: OpFile, F: 0, Str: []string{"path", "example.com/gen/out", ""}})
			}
			if r.Chance(40) {
				c.Ops = append(c.Ops, Op{Kind: OpSet, F: 0, Str: []string{"prefix", "pkg"}})
			}
			hint := func(p string) {
				switch r.Intn(4) {
				case 0:
					c.Ops = append(c.Ops, Op{Kind: OpHintAlias, F: 0, Str: []string{p, "."}})
				case 1:
					c.Ops = append(c.Ops, Op{Kind: OpHintAlias, F: 0, Str: []string{p, genIdent(r)}})
				case 2:
					c.Ops = append(c.Ops, Op{Kind: OpHintName, F: 0, Str: []string{p, genIdent(r)}})
				default:
					kv := [][2]string{{p, genIdent(r)}}
					for _, q := range pool.Paths {
						if q != p && r.Chance(30) {
							kv = append(kv, [2]string{q, genIdent(r)})
						}
					}
					c.Ops = append(c.Ops, Op{Kind: OpHintNames, F: 0, KV: kv})
				}
			}
			for _, p := range pool.Paths[:5] {
				if r.Chance(60) {
					c.Ops = append(c.Ops, Op{Kind: OpHintAlias, F: 0, Str: []string{p, "."}})
				} else if r.Chance(40) {
					hint(p)
				}
			}
			reg := 0
			rounds := 2 + r.Intn(2)
			for k := 0; k < rounds; k++ {
				for _, s := range importBody(r, pool, 1+r.Intn(4)) {
					c.Ops = append(c.Ops, addToFile(r, 0, s, &reg)...)
				}
				c.Ops = append(c.Ops, Op{Kind: OpRender, F: 0})
				for _, p := range pool.Paths[:5] {
					if r.Chance(50) {
						hint(p)
					}
				}
			}
			c.Ops = append(c.Ops, Op{Kind: OpRender, F: 0})
			cs = append(cs, c)
		}
		return cs
	})
	// C19: exhaustive combinations
	mk("C19", true, func(cx *CheckCtx) []*Case {
		var cs []*Case
		preambles := [][]string{nil, {"#include <a.h>"}, {"#include <a.h>\n#include <b.h>"}, {"// #include <raw.h>"}, {"#include <a.h>", "/* second */", "int x;"}, {"#include <a.h>", "#include <a.h>"}, {"#define T int", "#include \"v.h\"", "#undef T\n#define T float", "#include \"v.h\""},
			// texts that begin and/or end with line breaks (back-quoted literals opened on their own
			// line), with comment-looking lines inside: not the raw form — the FIRST bytes decide
			{"#include <a.h>", "\n// helpers\n", "int x;"}, {"\n/* section */\n"}, {"\r\n// crlf first\r\n#include <c.h>"}, {"\n\n#include <a.h>\n\n"}, {" // blank first", "\t/* tab first */"},
			// raw form holding several comments (no blank line between them: that would be the user's own separation)
			{"/* #cgo LDFLAGS: -lm */\n/* #include <m.h> */"}, {"// #cgo LDFLAGS: -lm\n//\n// #include <m.h>"}, {"/* a */\n// b\n/* c */"}, {"/* #cgo LDFLAGS: -lm */\n\n/* #include <m.h> */"}}
		others := [][]string{nil, {"fmt"}, {"a.com/d", "b.com/d", "os"}, {"x.com/c"}, {"a.com/C"},
			{"9fans.net/go/acme", "fmt"}, {"Azure.com/sdk", "B.io/x"}, {"-x.org/y"}}
		n := 0
		for qualC := 0; qualC < 2; qualC++ {
			for anonC := 0; anonC < 2; anonC++ {
				for _, pre := range preambles {
					for oi, oth := range others {
						for prefix := 0; prefix < 2; prefix++ {
							for hint := 0; hint < 7; hint++ {
								for anonOther := 0; anonOther < 2; anonOther++ {
									n++
									c := &Case{ID: fmt.Sprintf("C19-%d", n)}
									c.Ops = append(c.Ops, Op{Kind: OpFile, F: 0, Str: []string{"new", "", "p"}})
									if prefix == 1 {
										c.Ops = append(c.Ops, Op{Kind: OpSet, F: 0, Str: []string{"prefix", "pkg"}})
									}
									switch hint {
									case 1:
										c.Ops = append(c.Ops, Op{Kind: OpHintName, F: 0, Str: []string{"C", "cgo"}})
									case 2:
										c.Ops = append(c.Ops, Op{Kind: OpHintAlias, F: 0, Str: []string{"C", "cc"}})
									case 3:
										c.Ops = append(c.Ops, Op{Kind: OpHintAlias, F: 0, Str: []string{"C", "."}})
									case 4:
										c.Ops = append(c.Ops, Op{Kind: OpHintAlias, F: 0, Str: []string{"x.com/c", "C"}})
									case 5:
										// "C" hinted as itself (a generator that declares every import it uses)
										c.Ops = append(c.Ops, Op{Kind: OpHintAlias, F: 0, Str: []string{"C", "C"}})
									case 6:
										c.Ops = append(c.Ops, Op{Kind: OpHintName, F: 0, Str: []string{"C", "C"}})
									}
									if anonC == 1 {
										c.Ops = append(c.Ops, Op{Kind: OpAnon, F: 0, Str: []string{"C"}})
									}
									if anonOther == 1 {
										c.Ops = append(c.Ops, Op{Kind: OpAnon, F: 0, Str: []string{"z.com/anon"}})
									}
									for _, p := range pre {
										c.Ops = append(c.Ops, Op{Kind: OpCgo, F: 0, Str: []string{p}})
									}
									pool := append([]string{"C"}, oth...)
									var refs []Arg
									if qualC == 1 {
										refs = append(refs, st(Qual{Path: "C", Name: qName(0)}))
									}
									for k := range oth {
										refs = append(refs, st(Qual{Path: pool[k+1], Name: qName(k + 1)}))
									}
									_ = oi
									c.Ops = append(c.Ops, Op{Kind: OpFAdd, F: 0, Args: []Arg{st(kw("Var"), id("_"), op("="), &Grp{Api: "Index"}, kw("Any"), &Grp{Api: "Values", Args: refs})}})
									if qualC == 1 && anonC == 0 {
										// referenced again later in the body
										c.Ops = append(c.Ops, Op{Kind: OpFAdd, F: 0, Args: []Arg{st(kw("Var"), id("_"), op("="), Qual{Path: "C", Name: qName(0)})}})
									}
									c.Ops = append(c.Ops, Op{Kind: OpRender, F: 0})
									cs = append(cs, c)
								}
							}
						}
					}
				}
			}
		}
		for i := 0; i < cx.N(400, 10000); i++ {
			cs = append(cs, genCgoHistory(cx, i))
		}
		return cs
	})
	// C18: every standard-library package directory of the installed toolchain
	mk("C18", true, func(cx *CheckCtx) []*Case {
		var cs []*Case
		pk := stdPackages()
		cx.Extra["std_packages_enumerated"] = len(pk)
		byName := map[string][]string{}
		for _, p := range pk {
			byName[stdDeclName(p)] = append(byName[stdDeclName(p)], p)
		}
		one := func(cid string, paths []string, prefix bool) {
			c := &Case{ID: cid}
			c.Ops = append(c.Ops, Op{Kind: OpFile, F: 0, Str: []string{"new", "", "p"}})
			if prefix {
				c.Ops = append(c.Ops, Op{Kind: OpSet, F: 0, Str: []string{"prefix", "pkg"}})
			}
			var refs []Arg
			for k, p := range paths {
				refs = append(refs, st(Qual{Path: p, Name: qName(k)}))
			}
			c.Ops = append(c.Ops, Op{Kind: OpFAdd, F: 0, Args: []Arg{st(kw("Var"), id("_"), op("="), &Grp{Api: "Index"}, kw("Any"), &Grp{Api: "Values", Args: refs})}})
			c.Ops = append(c.Ops, Op{Kind: OpRender, F: 0})
			cs = append(cs, c)
		}
		for _, p := range pk {
			one("C18-one-"+p, []string{p}, false)
			one("C18-onep-"+p, []string{p}, true)
			// every other way a std path gets into the table before it is referenced: a blank
			// import (`_ "embed"`, image/png, net/http/pprof … are used both ways), ImportName with
			// the declared name, a fragment rendered with the File first
			for v := 0; v < 3; v++ {
				c := &Case{ID: fmt.Sprintf("C18-pre-%s-%d", p, v)}
				c.Ops = append(c.Ops, Op{Kind: OpFile, F: 0, Str: []string{"new", "", "p"}})
				switch v {
				case 0:
					c.Ops = append(c.Ops, Op{Kind: OpAnon, F: 0, Str: []string{p}})
				case 1:
					c.Ops = append(c.Ops, Op{Kind: OpHintName, F: 0, Str: []string{p, stdDeclName(p)}})
				default:
					c.Ops = append(c.Ops, Op{Kind: OpStmt, S: 1, Items: []SItem{id("_"), op("="), Qual{Path: p, Name: qName(0)}}}, Op{Kind: OpFrag, S: 1, F: 0})
				}
				c.Ops = append(c.Ops, Op{Kind: OpFAdd, F: 0, Args: []Arg{st(kw("Var"), id("_"), op("="), Qual{Path: p, Name: qName(0)})}})
				c.Ops = append(c.Ops, Op{Kind: OpRender, F: 0})
				cs = append(cs, c)
			}
		}
		npairs := 0
		for _, ps := range byName {
			for i := 0; i < len(ps); i++ {
				for j := 0; j < len(ps); j++ {
					if i != j {
						npairs++
						one(fmt.Sprintf("C18-pair-%s-%s", ps[i], ps[j]), []string{ps[i], ps[j]}, npairs%2 == 0)
					}
				}
			}
		}
		cx.Extra["std_colliding_pairs"] = npairs
		// user aliases on standard packages: the last path element, the declared name, something else
		for _, p := range pk {
			base := filepath.Base(p)
			for v, a := range []string{base, stdDeclName(p), "x" + base} {
				if !isGoIdent(a) {
					continue
				}
				c := &Case{ID: fmt.Sprintf("C18-alias-%s-%d", p, v)}
				c.Ops = append(c.Ops, Op{Kind: OpFile, F: 0, Str: []string{"new", "", "p"}})
				c.Ops = append(c.Ops, Op{Kind: OpHintAlias, F: 0, Str: []string{p, a}})
				c.Ops = append(c.Ops, Op{Kind: OpFAdd, F: 0, Args: []Arg{st(kw("Var"), id("_"), op("="), Qual{Path: p, Name: qName(0)})}})
				c.Ops = append(c.Ops, Op{Kind: OpRender, F: 0})
				cs = append(cs, c)
			}
		}
		// random triples with user paths guessing the same name
		for i := 0; i < cx.N(300, 5000); i++ {
			r := cx.R.Fork()
			a := pick(r, pk)
			one(fmt.Sprintf("C18-mix-%d", i), []string{"x.com/" + filepath.Base(a), a, pick(r, pk)}, r.Bool())
		}
		return cs
	})
}

// the Go specification's identifier: a letter (Unicode category L, or _) followed by letters and
// decimal digits (category Nd) — other numbers (superscripts, fractions, Roman numerals) are not
func isGoIdent(s string) bool {
	return token.IsIdentifier(s) || token.IsKeyword(s)
}

func isKeywordOrUniverse(s string) bool {
	for _, k := range goKeywords {
		if k == s {
			return true
		}
	}
	for _, k := range universeNames {
		if k == s {
			return true
		}
	}
	return false
}
