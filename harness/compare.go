package main

// Correspondence (tie 2): model observation vs real observation per render op.

import (
	"strings"
	"fmt"
	"go/format"
	"runtime"
	"sync"
)

type Disagreement struct {
	Case     *Case
	OpIndex  int    // index among render ops
	Level    string // L1 (raw bytes) | L2 (formatted bytes) | outcome
	Expected string
	Got      string
	Detail   string
}

// noFormatAt reports, for every render op of the case, whether the rendered File has NoFormat
// set at that point (only meaningful for OpRender).
func noFormatAt(c *Case) []bool {
	nf := map[int]bool{}
	var out []bool
	for _, o := range c.Ops {
		switch {
		case o.Kind == OpFile:
			nf[o.F] = false
		case o.Kind == OpSet && o.Str[0] == "noformat":
			nf[o.F] = o.Str[1] == "1"
		case o.IsRender():
			out = append(out, o.Kind == OpRender && nf[o.F])
		}
	}
	return out
}

func renderOps(c *Case) []Op {
	var out []Op
	for _, o := range c.Ops {
		if o.IsRender() {
			out = append(out, o)
		}
	}
	return out
}

// expectFromModel turns the model's raw bytes into the expected real observation, using the
// real go/format as the concrete instance of the model's `gofmt` parameter.
func expectFromModel(m ModelObs, noFormat bool, o Op) (class, out string) {
	if m.Class == "err:misuse" {
		return "err:misuse", ""
	}
	if noFormat {
		if o.WriterFailAt == 1 {
			return "err:writer", ""
		}
		return "ok", m.Raw
	}
	b, err := format.Source([]byte(m.Raw))
	if err != nil {
		return "err:format", ""
	}
	if o.WriterFailAt == 1 {
		return "err:writer", ""
	}
	return "ok", string(b)
}

func trunc(s string) string {
	if len(s) > 600 {
		return s[:600] + "…"
	}
	return s
}

func compareCase(c *Case, model []ModelObs, real []RenderObs, buildPanic string) []Disagreement {
	var ds []Disagreement
	if buildPanic != "" {
		return []Disagreement{{Case: c, OpIndex: -1, Level: "outcome", Expected: "build succeeds", Got: "panic while building: " + buildPanic}}
	}
	nf := noFormatAt(c)
	ops := renderOps(c)
	// a render aborted by the misuse error leaves THAT File's import table partly filled (the
	// traversal stopped half way; the model does not follow it there): the history of that File
	// ends, the other Files of the case go on (what a failed render leaves behind for them)
	tainted := map[int]bool{}
	fileOf := func(o Op) int {
		if o.Kind == OpGFrag {
			return o.F2
		}
		return o.F
	}
	for i := range ops {
		if i >= len(model) {
			break
		}
		if tainted[fileOf(ops[i])] {
			continue
		}
		if len(model[i].Class) > 6 && model[i].Class[:6] == "error:" {
			ds = append(ds, Disagreement{Case: c, OpIndex: i, Level: "machinery", Expected: "driver accepts the recipe", Got: model[i].Class})
			return ds
		}
		if i >= len(real) {
			ds = append(ds, Disagreement{Case: c, OpIndex: i, Level: "outcome", Expected: model[i].Class, Got: "real run stopped earlier"})
			return ds
		}
		if model[i].HasPrint && model[i].Print != model[i].Raw {
			ds = append(ds, Disagreement{Case: c, OpIndex: i, Level: "reference-printer", Expected: trunc(model[i].Print), Got: trunc(model[i].Raw),
				Detail: "executable instance of C01.render_build_eq_print: the model's rendering of the Lean-built tree differs from the reference printer's text"})
			return ds
		}
		class, out := expectFromModel(model[i], nf[i], ops[i])
		r := real[i]
		if r.Class != class {
			ds = append(ds, Disagreement{Case: c, OpIndex: i, Level: "outcome", Expected: class, Got: r.Class, Detail: trunc(r.Err)})
			return ds
		}
		if class == "ok" && r.Out != out {
			lvl := "L2"
			if nf[i] {
				lvl = "L1"
			}
			ds = append(ds, Disagreement{Case: c, OpIndex: i, Level: lvl, Expected: trunc(out), Got: trunc(r.Out)})
			return ds
		}
		if class == "err:misuse" {
			tainted[fileOf(ops[i])] = true
		}
	}
	return ds
}

type CaseRun struct {
	Case       *Case
	Model      []ModelObs
	Real       []RenderObs
	BuildPanic string
	Dis        []Disagreement
}

// RunAll runs model and real library on all cases and compares.
func RunAll(cases []*Case, formSeed uint64) ([]*CaseRun, error) {
	par := runtime.NumCPU()
	model, err := RunModel(cases, par)
	if err != nil {
		return nil, err
	}
	runs := make([]*CaseRun, len(cases))
	var wg sync.WaitGroup
	sem := make(chan struct{}, par)
	for i := range cases {
		wg.Add(1)
		sem <- struct{}{}
		go func(i int) {
			defer wg.Done()
			defer func() { <-sem }()
			fc := &FormChooser{r: NewRng(formSeed + uint64(i)*7919), Fixed: -1}
			// cases that pin the way every construct is called: "-plain" = the plain variant of
			// every choice (no ...Func, no Do wrapping; the term's own structure decides between
			// package function, Statement method and Group method), "-func" = the Func variants
			if strings.HasSuffix(cases[i].ID, "-plain") {
				fc.Fixed = 0
			} else if strings.HasSuffix(cases[i].ID, "-func") {
				fc.Fixed = 2
			}
			real, bp := RunReal(cases[i], fc, false)
			cr := &CaseRun{Case: cases[i], Model: model[i], Real: real, BuildPanic: bp}
			cr.Dis = compareCase(cases[i], model[i], real, bp)
			if fc.CbCalls != fc.CbBuilt || fc.CbDuringRender != 0 {
				cr.Dis = append(cr.Dis, Disagreement{Case: cases[i], OpIndex: -1, Level: "callbacks",
					Expected: fmt.Sprintf("%d callbacks run once at build time", fc.CbBuilt),
					Got:      fmt.Sprintf("%d invocations, %d during render", fc.CbCalls, fc.CbDuringRender)})
			}
			runs[i] = cr
		}(i)
	}
	wg.Wait()
	return runs, nil
}
