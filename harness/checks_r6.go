package main

// Input classes added after the sixth round of seeded changes (DESIGN.md §10.6): what a literal
// renders as must not depend on what was rendered before it with the same File; strings beyond
// internal size thresholds; failing renders followed by other renders; maps the caller still
// holds and changes between renders (direct experiments, see direct.go).

import (
	"fmt"
	"math"
	"strings"
)

// ---------------------------------------------------------------- C11: literals in context

// values that are "the same number" in different types, and exact duplicates
func genLitSeqCases(cx *CheckCtx) []*Case {
	var cs []*Case
	r := cx.R
	for i := 0; i < cx.N(500, 40000); i++ {
		var vs []interface{}
		switch r.Intn(7) {
		case 0: // a float32 and the float64 holding exactly the same value
			x := float32(genFloat(r))
			if r.Chance(40) {
				x = pick(r, []float32{0.1, 0.2, 0.3, 1.1, 3.14159, 1e-3, 16777217, 0.7, 2.5e-5, 1e10})
			}
			if !finite(float64(x)) {
				continue
			}
			vs = []interface{}{x, float64(x)}
			if r.Bool() {
				vs = append(vs, complex64(complex(x, x)), complex(float64(x), float64(x)))
			}
		case 1: // a float64 and its float32 rounding, and the float64 of that
			y := genFloat(r)
			x := float32(y)
			if !finite(float64(x)) {
				continue
			}
			vs = []interface{}{y, x, float64(x), y}
		case 2: // one small number in every integer type, and as float
			n := int64(r.Intn(128))
			if r.Chance(30) {
				n = -n
			}
			all := []interface{}{int(n), int8(n), int16(n), int32(n), int64(n), float64(n), float32(n), complex(float64(n), 0)}
			if n >= 0 {
				all = append(all, uint(n), uint8(n), uint16(n), uint32(n), uint64(n), uintptr(n))
			}
			r.Shuffle(len(all), func(a, b int) { all[a], all[b] = all[b], all[a] })
			vs = all[:2+r.Intn(5)]
		case 3: // the same bit pattern as signed and unsigned
			u := r.Next()
			vs = []interface{}{uint64(u), int64(u), uint32(u), int32(u), uint16(u), int16(u), uint8(u), int8(u)}
			r.Shuffle(len(vs), func(a, b int) { vs[a], vs[b] = vs[b], vs[a] })
			vs = vs[:2+r.Intn(4)]
		case 4: // exact duplicates around other values
			v := genFloat(r)
			vs = []interface{}{v, int(r.Intn(100)), v, true, v}
		case 5: // complex pairs
			a, b := float32(genFloat(r)), float32(genFloat(r))
			if !finite(float64(a)) || !finite(float64(b)) {
				continue
			}
			vs = []interface{}{complex64(complex(a, b)), complex(float64(a), float64(b)), a, float64(b)}
		default: // values whose texts share a prefix or differ by sign / exponent only
			v := genFloat(r)
			vs = []interface{}{v, -v, v * 10, v / 10, math.Float64frombits(math.Float64bits(v) + 1)}
			for k := range vs {
				if !finite(vs[k].(float64)) {
					vs[k] = 1.5
				}
			}
		}
		if r.Bool() {
			r.Shuffle(len(vs), func(a, b int) { vs[a], vs[b] = vs[b], vs[a] })
		}
		var ls []Lit
		for _, v := range vs {
			ls = append(ls, mkLit(v))
		}
		c := litSeqCase(fmt.Sprintf("C11-seq-%d-%d", cx.Seed, i), ls)
		if r.Chance(25) {
			// the same File rendered twice
			c.Ops = append(c.Ops, Op{Kind: OpRender, F: 0})
		}
		cs = append(cs, c)
	}
	return cs
}

// ---------------------------------------------------------------- C12: strings in context, large strings

func genStrSeqCases(cx *CheckCtx) []*Case {
	var cs []*Case
	r := cx.R
	for i := 0; i < cx.N(400, 30000); i++ {
		s := genBytes(r, 20)
		var ls []Lit
		switch r.Intn(5) {
		case 0:
			ls = []Lit{mkLit(s), mkLit(s), mkLit(s + "x"), mkLit(s)}
		case 1:
			t := genBytes(r, 20)
			ls = []Lit{mkLit(s), mkLit(t), mkLit(s + t), mkLit(t + s), mkLit(s)}
		case 2:
			cp := rune(r.Intn(0x110000))
			if cp >= 0xD800 && cp <= 0xDFFF {
				cp = 'é'
			}
			ls = []Lit{mkRune(cp), mkLit(string(cp)), mkRune(cp), mkByte(byte(cp)), mkLit(string([]byte{byte(cp)}))}
		case 3:
			if len(s) > 1 {
				ls = []Lit{mkLit(s), mkLit(s[:len(s)/2]), mkLit(s[len(s)/2:]), mkLit(s)}
			} else {
				ls = []Lit{mkLit(s), mkLit("")}
			}
		default:
			b := byte(r.Intn(256))
			ls = []Lit{mkByte(b), mkLit(string([]byte{b})), mkRune(rune(b)), mkByte(b)}
		}
		cs = append(cs, litSeqCaseID(fmt.Sprintf("C12-seq-%d-%d", cx.Seed, i), ls))
	}
	// strings around and beyond power-of-two sizes (buffer, chunk and fast-path thresholds):
	// multi-byte characters at every alignment, invalid bytes, escapes, plain ASCII
	sizes := []int{1 << 12, 1 << 13, 1 << 15, 1 << 16, 1<<16 + 1<<15, 1 << 17}
	nLarge := cx.N(10, 120)
	for i := 0; i < nLarge; i++ {
		target := sizes[i%len(sizes)] + r.Intn(9) - 4
		if r.Chance(50) {
			target += r.Intn(5000)
		}
		var unit string
		switch r.Intn(7) {
		case 0:
			unit = "é" // 2 bytes
		case 1:
			unit = "世" // 3 bytes
		case 2:
			unit = "\U0001F600" // 4 bytes
		case 3:
			unit = "a世é\U0001F600b"
		case 4:
			unit = "\xff\x80a"
		case 5:
			unit = "line one\n\t\"quoted\" \\ `tick`\r\n"
		default:
			unit = "abcdefghij"
		}
		var b strings.Builder
		b.WriteString(strings.Repeat("x", r.Intn(4))) // shifts every boundary
		for b.Len() < target {
			b.WriteString(unit)
		}
		cs = append(cs, litCase(fmt.Sprintf("C12-large-%d-%d", cx.Seed, i), mkLit(b.String())))
	}
	return cs
}

func litSeqCaseID(id string, ls []Lit) *Case { return litSeqCase(id, ls) }

// ---------------------------------------------------------------- failing renders, then other renders

// A File whose render fails, in the same case as Files that render: what a failed render leaves
// behind (in package-level state, pools, caches) must not reach the next render.  The failing
// shapes: the documented Values/Dict misuse at statement level, the same nested inside a Dict
// pair (key side and value side), and syntactically invalid compositions (formatter error).
func genFailThenRenderCase(cx *CheckCtx, i int, prop string) *Case {
	r := cx.R.Fork()
	pool := sanePool(r, 2+r.Intn(3))
	c := &Case{ID: fmt.Sprintf("%s-failthen-%d-%d", prop, cx.Seed, i)}
	g := validGen(r, pool)
	plainDict := func(n int) *Dict {
		d := &Dict{}
		for k := 0; k < n; k++ {
			d.Pairs = append(d.Pairs, [2]Arg{st(mkLit(fmt.Sprintf("k%d%s", k, genIdent(r)))), st(mkLit(r.Intn(1000)))})
		}
		return d
	}
	misuse := func() SItem {
		return &Grp{Api: "Values", Args: []Arg{plainDict(1 + r.Intn(3)), st(mkLit(0))}}
	}
	mapLit := func(d Arg) *Stmt {
		return st(kw("Var"), id(fmt.Sprintf("m%d", r.Intn(1000))), op("="), &Grp{Api: "Map", Args: []Arg{st(kw("String"))}}, kw("Any"), &Grp{Api: "Values", Args: []Arg{d}})
	}
	var failing *Stmt
	switch r.Intn(4) {
	case 0:
		failing = st(kw("Var"), id("bad"), op("="), id("T"), misuse())
	case 1: // inside the VALUE of a Dict pair, after pairs that render
		d := plainDict(1 + r.Intn(3))
		d.Pairs = append(d.Pairs, [2]Arg{st(mkLit("zone")), st(id("Zone"), misuse())})
		failing = mapLit(d)
	case 2: // inside the KEY of a Dict pair
		d := plainDict(1 + r.Intn(2))
		d.Pairs = append(d.Pairs, [2]Arg{st(id("K"), misuse()), st(mkLit(1))})
		failing = mapLit(d)
	default: // invalid Go: the formatter rejects it
		failing = st(kw("Func"), op("+"), kw("Break"), &Grp{Api: "Block"})
	}
	nf := 2 + r.Intn(2)
	for f := 0; f < nf; f++ {
		c.Ops = append(c.Ops, Op{Kind: OpFile, F: f, Str: []string{"new", "", "p"}})
		if r.Chance(30) {
			c.Ops = append(c.Ops, Op{Kind: OpSet, F: f, Str: []string{"noformat", "1"}})
		}
	}
	// file 0 fails; the others hold Dicts with several pairs and ordinary declarations
	c.Ops = append(c.Ops, Op{Kind: OpFAdd, F: 0, Args: []Arg{st(kw("Var"), id("leaked"), op("="), mkLit(1))}})
	c.Ops = append(c.Ops, Op{Kind: OpFAdd, F: 0, Args: []Arg{failing}})
	for f := 1; f < nf; f++ {
		for k := 0; k < 1+r.Intn(3); k++ {
			if r.Chance(60) {
				c.Ops = append(c.Ops, Op{Kind: OpFAdd, F: f, Args: []Arg{mapLit(plainDict(2 + r.Intn(5)))}})
			} else {
				c.Ops = append(c.Ops, Op{Kind: OpFAdd, F: f, Args: []Arg{g.decl(2)}})
			}
		}
	}
	// renders: victims before and after the failing one, the failing one possibly twice
	order := []int{}
	if r.Bool() {
		order = append(order, 1+r.Intn(nf-1))
	}
	order = append(order, 0)
	for f := 1; f < nf; f++ {
		order = append(order, f)
	}
	if r.Chance(40) {
		order = append(order, 0, 1+r.Intn(nf-1))
	}
	for _, f := range order {
		c.Ops = append(c.Ops, Op{Kind: OpRender, F: f})
	}
	return dropInsane(c)
}
